"""C03 — Classical control and data flow behave as in Python.

What a contract can reach here, and what stands in for the rest:

 A  CFGBuilder.build (cfg/builder.py: visit_If / While / For / Break / Continue / Return / Expr /
    Assign / AugAssign / FunctionDef, ExprBuilder, BranchBuilder, ast_util.template_replace), the
    REAL code executed by pyvc on every program of a statement family covering the fragment named in
    the property (if/elif/else, while, for over range and arrays, break/continue/return, conditional
    expressions, walrus, augmented and unpacking assignments, non-capturing nested functions,
    unreachable code).  Postcondition, taken from the property: for EVERY sequence of at most L
    decisions (all oracle calls of a run draw from one script) the CFG, read as "statements in
    order, then the predicate picks successors[1]/[0]", produces exactly CPython's trace of
    oracle/effect calls and the same result or the same unbound-variable failure.  (Pn: programs
    enumerated, decisions exhaustive up to L; loops cut by a call limit on both sides.)
 B  compile_cfg / compile_bb / sort_vars (compiler/cfg_compiler.py): the reading of a CFG used in A
    is what is emitted — block i's k-th HUGR successor is the block of bb.successors[k]; the
    branch value is the predicate read as a bool (tag 1 = True); the places a block outputs
    towards a successor are, position by position, the places that successor takes as inputs
    (sort_vars is a canonical order: independent of the order of the row it is given).
 C  BOUNDED, whole pipeline: programs of the fragment compiled by the real compiler and run on the
    selene emulator, result stream compared with CPython running the same source (integers reduced
    to 64-bit two's complement).  Needs the plain-bool lowering of compat/guppy_plainbool.py.
"""
import ast
import re
import z3

from pyvc import SObj, ClassVal, Builtin, PyRaise
from pyvc.astmodel import is_ast_class
from .common import mk_engine, ast_from_source
from . import cfgsem as S
from .C03_oracle import ORACLE, DRIVER, REPLAY_ONE

TITLE = "CFG construction == Python control flow (all decision sequences); block interfaces agree; emulator == CPython (bounded)"
B = "guppylang_internals.cfg.builder"
NCHUNK = 8
NCH_C = 8
L_QUICK, L_THOROUGH = 6, 8
LC_QUICK, LC_THOROUGH = 3, 5

REPLAY = r'''
# native replay of a CFGBuilder obligation: build the CFG with the real builder under CPython and
# evaluate it with the same reference evaluator (contracts/cfgsem.py is loaded from /verif)
import sys, ast
sys.path.insert(0, "/verif")
from contracts import cfgsem as S
import guppylang_internals.cfg.builder as Bd
from guppylang_internals.ast_util import annotate_location
I = INPUT
src = I["src"]
fd = ast.parse(src).body[0]
annotate_location(fd, src, "<replay>", 1)
import guppylang_internals.checker.func_checker as FC
class _Ty:
    output = "INT"
FC.check_signature = lambda node, globals: _Ty()
cfg = Bd.CFGBuilder().build(fd.body, True, None)
class W:                      # give the real objects the `.fields` view the evaluator reads
    def __init__(s, o): s.o = o
def view(o, memo={}):
    return o
class BBV:
    pass
def conv(n):
    if isinstance(n, list): return [conv(x) for x in n]
    if not isinstance(n, ast.AST): return n
    name = type(n).__name__
    if name == "MakeIter": return ast.Call(ast.Name("__make_iter", ast.Load()), [conv(n.value)], [])
    if name == "IterNext": return ast.Call(ast.Name("__iter_next", ast.Load()), [conv(n.value)], [])
    cls = getattr(ast, name, None)
    if cls is None or type(n) is not cls: raise S.CfgShapeError(f"node of class {name} in a basic block")
    return cls(**{f: conv(getattr(n, f)) for f in n._fields if hasattr(n, f)})
class FV:
    """adapter: real CFG/BB objects -> objects with .fields and .cls.name"""
    cache = {}
    def __new__(cls, o):
        if id(o) in cls.cache: return cls.cache[id(o)]
        s = object.__new__(cls); cls.cache[id(o)] = s; s.o = o
        return s
    @property
    def cls(self):
        class C: name = type(self.o).__name__
        return C
    @property
    def fields(self):
        o = self.o
        if hasattr(o, "entry_bb"):
            return {"entry_bb": FV(o.entry_bb), "exit_bb": FV(o.exit_bb)}
        if hasattr(o, "successors"):
            return {"statements": [FV(s) for s in o.statements], "branch_pred": None if o.branch_pred is None else FV(o.branch_pred), "successors": [FV(s) for s in o.successors]}
        if type(o).__name__ == "NestedFunctionDef":
            class A:
                pass
            return {"cfg": FV(o.cfg), "name": o.name, "args": type("X", (), {"fields": {"args": [type("Y", (), {"fields": {"arg": a.arg}}) for a in o.args.args]}})}
        return {}
bad = None
try:
    run_cfg = S.compile_cfg_object(FV(cfg), lambda v: conv(v.o))
    run_py = S.py_runner(src)
    for sc in S.scripts(I["L"]):
        a, b = run_cfg(sc), run_py(sc)
        if a != b:
            bad = {"script": list(sc), "cfg": repr(a)[:400], "python": repr(b)[:400]}; break
except S.CfgShapeError as ex:
    bad = {"shape": str(ex)}
print(json.dumps({"violates": bad is not None, "witness": bad, "src": src}))
'''


def to_real_ext(o):
    if isinstance(o, SObj):
        cn = o.cls.name
        if cn == "MakeIter":
            return ast.Call(ast.Name("__make_iter", ast.Load()), [to_real_ext(o.fields["value"])], [])
        if cn == "IterNext":
            return ast.Call(ast.Name("__iter_next", ast.Load()), [to_real_ext(o.fields["value"])], [])
        c = getattr(ast, cn, None)
        if c is None or not is_ast_class(o.cls) or not getattr(o.cls, "builtin", False):
            raise S.CfgShapeError(f"node of class {cn} in a basic block")
        kw = {}
        for k, v in o.fields.items():
            if k in c._fields or k in getattr(c, "_attributes", ()):
                kw[k] = to_real_ext(v)
        return c(**kw)
    if isinstance(o, list):
        return [to_real_ext(x) for x in o]
    if isinstance(o, ClassVal) and getattr(o, "is_ast", False) and o.name in ("Load", "Store", "Del"):
        return getattr(ast, o.name)()          # `ctx=ast.Load` (the class) is accepted where an instance is meant
    return o


def run(chk):
    for i in range(NCHUNK):
        chk.section(f"cfg-builder-{i}", lambda i=i: layer_a(chk, i))
    chk.section("block-interfaces", lambda: layer_b(chk))
    chk.section("compile_bb", lambda: layer_b3(chk))
    chk.section("tuple-unpacking", lambda: _tuple_unpacking(chk))
    for i in range(NCH_C):
        chk.section(f"bounded-{i}", lambda i=i: layer_c(chk, i))
    chk.expected_min_obligations = 60
    chk.assumptions += [
        "meaning of a CFG object: statements of a block in order, then branch_pred picks successors[1] (true) / successors[0] (false); MakeIter/IterNext mean iter()/next-or-nothing (their lowering is C18/C19)",
        "check_signature (type annotation parsing of nested functions) is replaced by a stub in layer A; is_comptime_expression returns None (no comptime in the family)",
        "decision sequences longer than L and runs with more than 40 oracle/effect calls are not explored (stated bound of layer A)",
    ]


def layer_a(chk, chunk):
    e = mk_engine(chk)
    for q in ("CFGBuilder.build", "CFGBuilder.visit_stmts", "CFGBuilder._build_node_value", "CFGBuilder.visit_Assign", "CFGBuilder.visit_AugAssign", "CFGBuilder.visit_AnnAssign",
              "CFGBuilder.visit_Expr", "CFGBuilder.visit_If", "CFGBuilder.visit_While", "CFGBuilder.visit_For", "CFGBuilder.visit_Continue", "CFGBuilder.visit_Break",
              "CFGBuilder.visit_Return", "CFGBuilder.visit_Pass", "CFGBuilder.visit_FunctionDef", "ExprBuilder.build", "ExprBuilder.visit_IfExp", "ExprBuilder.visit_NamedExpr",
              "ExprBuilder.generic_visit", "BranchBuilder.add_branch", "BranchBuilder.visit_BoolOp", "BranchBuilder.visit_UnaryOp", "BranchBuilder.visit_Compare", "BranchBuilder.visit_IfExp"):
        try:
            e.func_info(B, q)
        except KeyError:
            pass
    e.func_info("guppylang_internals.ast_util", "template_replace")
    e.func_info("guppylang_internals.cfg.cfg", "BaseCFG.update_reachable")
    e.models[f"{B}:is_comptime_expression"] = lambda it, a, k: None
    e.models["guppylang_internals.checker.func_checker:check_signature"] = lambda it, a, k: SObj(ClassVal("FuncTy", builtin=True), {"output": "INT"})
    L = L_QUICK if chk.tier != "thorough" else L_THOROUGH
    progs = S.programs(chk.tier)
    mine = list(enumerate(progs))[chunk::NCHUNK]
    n_ok = cfg_obligations(chk, e, mine, L)
    chk.record(f"CFGBuilder.build:programs-explored[chunk {chunk}]", n_ok >= 10, str(n_ok), kind="reachability")
    if chunk == 0:
        # recorded deviation (open finding C03-walrus-hoisted-before-earlier-operands): kept as obligations so
        # that the finding is re-observed on every run and a DIFFERENT misbehaviour of the walrus is reported
        src_of = lambda body: "def f():\n" + "\n".join("    " + l for l in S.PROLOGUE + body + S.EPILOGUE) + "\n"  # noqa: E731
        known = [(9000, src_of(["x = 1", "y = x + (x := 5)", "e(y)"])), (9001, src_of(["y = e(1) + (x := e(2))", "e(y)"]))]
        cfg_obligations(chk, e, known, L, what="the-CFG-executes-exactly-Python's-trace-and-result(known-deviation:walrus)")
    chk.use_engine(e)


def cfg_engine(chk):
    """engine prepared for executing the real CFGBuilder (shared with C17's literal family)"""
    e = mk_engine(chk)
    e.models[f"{B}:is_comptime_expression"] = lambda it, a, k: None
    e.models["guppylang_internals.checker.func_checker:check_signature"] = lambda it, a, k: SObj(ClassVal("FuncTy", builtin=True), {"output": "INT"})
    return e


def cfg_obligations(chk, e, mine, L, what="the-CFG-executes-exactly-Python's-trace-and-result"):
    n_ok = 0
    for gi, src in mine:
        def t(it, src=src):
            m = e.module(B)
            it.ctx.mod_globals(m)["tmp_vars"] = [f"%tmp{i}" for i in range(300)]
            CB = it.lookup_global(m, "CFGBuilder")
            fd = ast_from_source(it, src).fields["body"][0]
            cb = it.call(CB, [], {})
            return it.call_method(cb, "build", [fd.fields["body"], True, SObj(ClassVal("Globals", builtin=True), {})])
        paths = e.explore(t)

        whys = []

        def post(p, src=src):
            r = post_(p, src)
            if z3.is_false(r):
                whys.append(p.ctx.ghost.get("why") or (f"the builder raised {p.value!r:.200}" if p.kind == "raise" else p.kind))
            return r

        def post_(p, src=src):
            if p.kind != "return":
                return z3.BoolVal(False)          # every member of the family is inside the supported fragment
            try:
                run_cfg = S.compile_cfg_object(p.value, to_real_ext)
            except S.CfgShapeError as ex:
                p.ctx.ghost["why"] = f"shape: {ex}"
                return z3.BoolVal(False)
            run_py = S.py_runner(src)
            for sc in S.scripts(L):
                try:
                    a = run_cfg(sc)
                except S.CfgShapeError as ex:
                    p.ctx.ghost["why"] = f"shape: {ex}"
                    return z3.BoolVal(False)
                b = run_py(sc)
                if a != b:
                    p.ctx.ghost["why"] = f"script {list(sc)}: CFG {a!r:.300} vs Python {b!r:.300}"
                    return z3.BoolVal(False)
            return z3.BoolVal(True)
        body = " ; ".join(l.strip() for l in src.splitlines()[6:-2])
        outs = chk.prove_paths(f"CFGBuilder.build[#{gi}: {body[:90]}]:for-every-decision-sequence(<={L})-{what}", paths, post,
                        func=f"{B}:CFGBuilder.build", replay=lambda m_, src=src: {"script": REPLAY, "input": {"src": src, "L": L}})
        for o in outs:
            if o.status == "refuted" and whys:
                o.detail = (o.detail + " " if o.detail else "") + whys[0]
        n_ok += 1
    return n_ok


def layer_b(chk):
    """compile_cfg wires HUGR block k's i-th branch to the block of bb.successors[i]; sort_vars is a
    canonical order on rows of places (so the outputs a block hands to a successor line up,
    position by position, with the inputs the successor declares)."""
    import itertools
    CC = "guppylang_internals.compiler.cfg_compiler"
    CORE = "guppylang_internals.checker.core"
    e = mk_engine(chk)
    for q in ("compile_cfg", "sort_vars", "compare_var"):
        try:
            e.func_info(CC, q)
        except KeyError:
            pass
    m = e.module(CC)

    # ---- B1 sort_vars: for every row of distinct places, in EVERY order it may arrive in, the result
    # is the one list ordered by (not droppable, name) — droppable places first, by name, generated
    # temporaries among themselves by their NUMBER (%tmp8 before %tmp10: the counter is session-wide, C11)
    def places(it, flags):
        V = it.lookup_global(e.module(CORE), "Variable")
        FA = it.lookup_global(e.module(CORE), "FieldAccess")
        TA = it.lookup_global(e.module(CORE), "TupleAccess")
        IF = it.lookup_global(e.module("guppylang_internals.tys.ty"), "InputFlags")
        nof = it.getattr(IF, "NoFlags")
        tys = [SObj(ClassVal("Ty", builtin=True), {"droppable": f, "name": f"ty{i}"}) for i, f in enumerate(flags)]
        var = lambda n, t: SObj(V, {"name": n, "ty": t, "defined_at": None, "flags": nof, "is_func_input": False})  # noqa: E731
        fld = lambda par, n, t: SObj(FA, {"parent": par, "field": SObj(ClassVal("StructField", builtin=True), {"name": n, "ty": t}), "exact_defined_at": None})  # noqa: E731
        s_ = var("s", tys[0])
        pool = [var("b", tys[0]), fld(s_, "y", tys[1]), fld(s_, "x", tys[2]), var("a", tys[3]), fld(fld(s_, "x", tys[2]), "u", tys[4]),
                SObj(TA, {"parent": var("t", tys[0]), "elem_ty": tys[5], "index": 1, "exact_defined_at": None}),
                var("%tmp8", tys[6]), var("%tmp10", tys[7]), fld(var("%tmp9", tys[0]), "f", tys[8])]
        return pool
    NAMES = ["b", "s.y", "s.x", "a", "s.x.u", "t[1]", "%tmp8", "%tmp10", "%tmp9.f"]
    NP = len(NAMES)

    def name_key(nm):
        # generated temporaries by NUMBER (the counter is session-wide: C11), everything else by name
        mt = re.fullmatch(r"%tmp(\d+)(.*)", nm)
        return ("%tmp", int(mt[1]), mt[2]) if mt else (nm, 0, "")
    rows = [c for k in (2, 3) for c in itertools.combinations(range(NP), k)] + [(0, 1, 2, 3), (1, 2, 4, 5), (0, 2, 3, 4), (6, 7, 8, 0), (3, 7, 6, 8)]
    n_rows = 0
    for row in rows:
        flagsets = list(itertools.product((True, False), repeat=len(row))) if len(row) <= 3 else [(True,) * 4, (True, False, True, False), (False, True, True, False)]
        for fl in flagsets:
            flags = [True] * NP
            for i, f in zip(row, fl):
                flags[i] = f
            want = [NAMES[i] for i in sorted(row, key=lambda i: (not flags[i], name_key(NAMES[i])))]

            def t(it, row=row, flags=flags):
                pool = places(it, flags)
                f = it.lookup_global(m, "sort_vars")
                outs = []
                for perm in itertools.permutations(row):
                    r = it.call(f, [[pool[i] for i in perm]], {})
                    outs.append([it.call(it.builtins["str"], [p], {}) for p in r])
                return outs
            paths = e.explore(t)
            chk.prove_paths(f"sort_vars[{'+'.join(NAMES[i] + ('' if flags[i] else '!') for i in row)}]:every-arrival-order-gives-the-list-ordered-by-(not-droppable,name;temporaries-by-number)", paths,
                            lambda p, want=want: z3.BoolVal(p.kind == "return" and all(o == want for o in p.value)), func=f"{CC}:sort_vars",
                            replay=lambda m_, row=row, flags=flags: {"script": REPLAY_SORT, "input": {"row": list(row), "flags": flags}})
            n_rows += 1
    chk.record("sort_vars:rows-explored", n_rows >= 80, str(n_rows), kind="reachability")

    # ---- B2 compile_cfg: every block compiled once, entry flagged, branch k of a block goes to its k-th successor
    for shape in ([[1], [2, 3], [1], []], [[1, 2], [3], [3], []], [[0, 1], []], [[2, 1], [3], [1, 3], []]):
        def t2(it, shape=shape):
            n = len(shape)
            bbs = [SObj(ClassVal("CheckedBB", builtin=True), {"idx": i, "is_exit": i == n - 1}) for i in range(n)]
            for i, su in enumerate(shape):
                bbs[i].fields["successors"] = [bbs[j] for j in su]
                bbs[i].fields["predecessors"] = [bbs[k] for k in range(n) if i in shape[k]]
                bbs[i].fields["sig"] = SObj(ClassVal("Signature", builtin=True), {"input_row": [], "output_rows": [[] for _ in su]})
            cfg = SObj(ClassVal("CheckedCFG", builtin=True), {"bbs": bbs, "entry_bb": bbs[0], "exit_bb": bbs[-1], "output_ty": None})
            log = []
            compiled = []

            def compile_bb(it2, a, k):
                bb, builder, is_entry, ctx = a
                compiled.append((bb.fields["idx"], is_entry))
                return [("port", bb.fields["idx"], j) for j in range(max(1, len(bb.fields["successors"])))] if not bb.fields["is_exit"] else ("exit-block",)
            e.models[f"{CC}:compile_bb"] = compile_bb
            e.models[f"{CC}:insert_return_vars"] = lambda it2, a, k: None
            e.models[f"{CC}:is_return_var"] = lambda it2, a, k: False
            builder = SObj(ClassVal("CfgBuilder", builtin=True), {"_exit_op": SObj(ClassVal("X", builtin=True), {}), "parent_op": SObj(ClassVal("X", builtin=True), {}), "parent_node": "PN",
                                                                  "hugr": SObj(ClassVal("H", builtin=True), {"_update_node_outs": Builtin("u", lambda *a: "PN2")})})
            builder.fields["branch"] = Builtin("branch", lambda src, dst: log.append((src, dst)))
            container = SObj(ClassVal("Container", builtin=True), {"add_cfg": Builtin("add_cfg", lambda *a: builder)})
            it.call(it.lookup_global(m, "compile_cfg"), [cfg, container, [], None], {})
            return log, compiled

        def post2(p, shape=shape):
            if p.kind != "return":
                return z3.BoolVal(False)
            log, compiled = p.value
            n = len(shape)
            want = []
            for i, su in enumerate(shape):
                for k, j in enumerate(su):
                    want.append((("port", i, k), ("exit-block",) if j == n - 1 else [("port", j, x) for x in range(max(1, len(shape[j])))]))
            return z3.BoolVal(sorted(map(repr, log)) == sorted(map(repr, want)) and len(log) == len(want) and sorted(compiled) == [(i, i == 0) for i in range(n)])
        chk.prove_paths(f"compile_cfg[successors={shape}]:each-block-compiled-once(entry-flagged)/\\branch-k-of-a-block-is-wired-to-its-k-th-successor", e.explore(t2), post2,
                        func=f"{CC}:compile_cfg")
    for k in (f"{CC}:compile_bb", f"{CC}:insert_return_vars", f"{CC}:is_return_var"):
        e.models.pop(k, None)
    chk.use_engine(e)


REPLAY_SORT = r'''
import itertools
import re
from guppylang_internals.checker.core import Variable, FieldAccess, TupleAccess
from guppylang_internals.compiler.cfg_compiler import sort_vars
I = INPUT
class Ty:
    def __init__(s, d): s.droppable = d
class F:
    def __init__(s, n, t): s.name = n; s.ty = t
tys = [Ty(f) for f in I["flags"]]
s_ = Variable("s", tys[0], None)
pool = [Variable("b", tys[0], None), FieldAccess(s_, F("y", tys[1]), None), FieldAccess(s_, F("x", tys[2]), None), Variable("a", tys[3], None),
        FieldAccess(FieldAccess(s_, F("x", tys[2]), None), F("u", tys[4]), None), TupleAccess(Variable("t", tys[0], None), tys[5], 1, None),
        Variable("%tmp8", tys[6], None), Variable("%tmp10", tys[7], None), FieldAccess(Variable("%tmp9", tys[0], None), F("f", tys[8]), None)]
def name_key(nm):
    mt = re.fullmatch(r"%tmp(\d+)(.*)", nm)
    return ("%tmp", int(mt[1]), mt[2]) if mt else (nm, 0, "")
want = [str(pool[i]) for i in sorted(I["row"], key=lambda i: (not I["flags"][i], name_key(str(pool[i]))))]
outs = {tuple(str(p) for p in sort_vars([pool[i] for i in perm])) for perm in itertools.permutations(I["row"])}
print(json.dumps({"violates": outs != {tuple(want)}, "orders": sorted(map(list, outs)), "required": want}))
'''


def layer_c(chk, i):
    import json
    from pyvc.report import run_replay
    L = LC_QUICK if chk.tier != "thorough" else LC_THOROUGH
    res = run_replay(ORACLE + DRIVER, {"tier": chk.tier, "chunk": i, "nchunks": NCH_C, "L": L}, chk.repo, timeout=6000)
    if "evaluations" not in res:
        chk.undecided(f"bounded[{i}/{NCH_C}]:programs", "oracle run failed: " + json.dumps(res)[:800])
        return
    w = res.get("witness")
    o = chk.bounded_result(f"bounded[{i}/{NCH_C}]:emulator-result-stream==CPython(slice {i} of {NCH_C}; decision scripts of length <={L})", not res.get("violates"), res["evaluations"],
                           detail=res.get("detail") or f"{res['evaluations']} (program, script) runs on the emulator and under CPython; {res['accepted']} of {res['programs']} programs accepted and terminating "
                                                       f"({res['rejected']} rejected by the checker: {res['rejected_kinds']})",
                           witness=w, func="guppylang_internals.compiler.cfg_compiler:compile_cfg")
    if w:
        o.replay.update({"script": ORACLE + REPLAY_ONE, "input": {"src": w["src"], "L": L}})
    chk.record(f"bounded[{i}/{NCH_C}]:enough-programs-accepted", res["accepted"] >= 4, f"{res['accepted']} accepted of {res['programs']}", kind="reachability")


def layer_b3(chk):
    """compile_bb (compiler/cfg_compiler.py), real code against a recording CFG builder.  For every
    block shape — entry / inner block; one successor (another block, the exit) / two successors
    whose rows hold the same places / different places — the block takes its inputs in the order
    its signature gives (entry) or sort_vars gives (any other block), binds input wire k to input
    place k, compiles its statements, and sets as outputs:
      * the branch value: Tag(0, unit) for a single successor; read_bool of the compiled predicate
        for two (so tag 1 = True selects successors[1]); wrapped by choose_vars_for_tuple_sum over
        the sorted droppable places of each successor's row when the rows differ;
      * then the wires of the output places: the single row, sorted unless the successor is the
        exit; the shared sorted row; or the sorted non-droppable places when rows differ.
    Together with sort_vars' canonical order (B1) this is the statement that a block hands each
    successor the values of exactly the places that successor declares, position by position."""
    CC = "guppylang_internals.compiler.cfg_compiler"
    CORE = "guppylang_internals.checker.core"
    e = mk_engine(chk)
    e.func_info(CC, "compile_bb")
    m = e.module(CC)

    def setup(it, shape):
        V = it.lookup_global(e.module(CORE), "Variable")
        IF = it.lookup_global(e.module("guppylang_internals.tys.ty"), "InputFlags")
        nof = it.getattr(IF, "NoFlags")
        D, N = SObj(ClassVal("Ty", builtin=True), {"droppable": True, "to_hugr": Builtin("to_hugr", lambda c: "H-D")}), SObj(ClassVal("Ty", builtin=True), {"droppable": False, "to_hugr": Builtin("to_hugr", lambda c: "H-N")})
        var = lambda n, t: SObj(V, {"name": n, "ty": t, "defined_at": None, "flags": nof, "is_func_input": False})  # noqa: E731
        pool = {"a": var("a", D), "b": var("b", D), "c": var("c", D), "q": var("q", N), "r": var("r", N)}
        log = []
        block = SObj(ClassVal("Block", builtin=True), {"input_node": [f"IN{k}" for k in range(len(shape[1]))]})
        block.fields["set_block_outputs"] = Builtin("set_block_outputs", lambda br, *outs: log.append(("outputs", br, list(outs))))
        it.ctx.mod_globals(m)["OpaqueBool"] = "OPAQUE-BOOL"
        hugr = SObj(ClassVal("H", builtin=True), {"port_type": Builtin("port_type", lambda p: "OPAQUE-BOOL")})
        builder = SObj(ClassVal("CfgBuilder", builtin=True), {"exit": "EXIT-BLOCK", "hugr": hugr})
        builder.fields["add_entry"] = Builtin("add_entry", lambda: (log.append(("add_entry",)), block)[1])
        builder.fields["add_block"] = Builtin("add_block", lambda *tys: (log.append(("add_block", list(tys))), block)[1])
        dfb = SObj(ClassVal("DfBuilder", builtin=True), {"add_op": Builtin("add_op", lambda op, *w: ("op", op, w))})
        store = {}
        dfg = it.exec_snippet(m, "class _D:\n    def __init__(self, b, store):\n        self.builder = b\n        self.store = store\n    def __getitem__(self, k):\n        return ('wire', k.name, self.store.get(k.name))\n    def __setitem__(self, k, v):\n        self.store[k.name] = v\nd = _D(b, store)\n", {"b": dfb, "store": store})["d"]
        e.models["guppylang_internals.compiler.core:DFContainer"] = lambda it2, a, k: dfg
        sc = SObj(ClassVal("StmtCompiler", builtin=True), {"compile_stmts": Builtin("compile_stmts", lambda st, d: (log.append(("stmts", st, dict(store))), d)[1])})
        e.models["guppylang_internals.compiler.stmt_compiler:StmtCompiler"] = lambda it2, a, k: sc
        pred_wire = SObj(ClassVal("Wire", builtin=True), {"out_port": Builtin("out_port", lambda: "PORT")})
        ec = SObj(ClassVal("ExprCompiler", builtin=True), {"compile": Builtin("compile", lambda ex, d: (log.append(("pred", ex)), pred_wire)[1])})
        e.models["guppylang_internals.compiler.expr_compiler:ExprCompiler"] = lambda it2, a, k: ec
        e.models["guppylang_internals.std._internal.compiler.tket_bool:read_bool"] = lambda it2, a, k: "read_bool"
        e.models[f"{CC}:choose_vars_for_tuple_sum"] = lambda it2, a, k: ("TUPLE-SUM", k["unit_sum"], [[p.fields["name"] for p in row] for row in k["output_vars"]])
        e.ext_models["hugr.ops.Tag"] = lambda it2, a, k: ("Tag", a[0], a[1])
        e.ext_models["hugr.tys.UnitSum"] = lambda it2, a, k: ("UnitSum", a[0])
        is_entry, inputs, rows, to_exit = shape
        succs = [SObj(ClassVal("CheckedBB", builtin=True), {"is_exit": to_exit, "idx": 10 + i}) for i in range(len(rows))]
        bb = SObj(ClassVal("CheckedBB", builtin=True), {"is_exit": False, "reachable": True, "statements": "STMTS", "branch_pred": "PRED" if len(rows) > 1 else None, "successors": succs,
                                                        "sig": SObj(ClassVal("Signature", builtin=True), {"input_row": [pool[x] for x in inputs], "output_rows": [[pool[x] for x in r] for r in rows]})})
        r = it.call(it.lookup_global(m, "compile_bb"), [bb, builder, is_entry, "CTX"], {})
        return log, r is block, pred_wire

    def srt(names):
        return sorted(names, key=lambda x: (x in ("q", "r"), x))
    shapes = [
        (True, ["c", "a", "q"], [["q", "a"]], False), (False, ["c", "a", "q"], [["q", "a"]], False), (False, ["r", "b", "q", "a"], [["b", "q"]], True), (True, [], [[]], True),
        (False, ["c", "q", "a"], [["q", "c", "a"], ["a", "q", "c"]], False), (True, ["b", "a"], [["b"], ["a", "b"]], False),
        (False, ["q", "b", "a", "r"], [["r", "b", "q"], ["q", "a", "r"]], False), (False, ["a"], [[], ["a"]], False), (False, ["q", "c", "b"], [["c", "q"], ["q", "b"]], False),
    ]
    for shape in shapes:
        is_entry, inputs, rows, to_exit = shape

        def post(p, shape=shape):
            is_entry, inputs, rows, to_exit = shape
            if p.kind != "return":
                return z3.BoolVal(False)
            log, ret_is_block, pred_wire = p.value
            ins = inputs if is_entry else srt(inputs)
            want_first = ("add_entry",) if is_entry else ("add_block", ["H-N" if x in ("q", "r") else "H-D" for x in ins])
            ok = ret_is_block and log[0] == want_first
            st = [x for x in log if x[0] == "stmts"]
            ok = ok and len(st) == 1 and st[0][1] == "STMTS" and st[0][2] == {x: f"IN{k}" for k, x in enumerate(ins)}
            outs = [x for x in log if x[0] == "outputs"]
            ok = ok and len(outs) == 1 and log[-1] is outs[0]
            if not ok:
                return z3.BoolVal(False)
            _, br, wires = outs[0]
            names = [w[1] for w in wires]
            if len(rows) == 1:
                ok = br == ("op", ("Tag", 0, ("UnitSum", 1)), ()) and names == (rows[0] if to_exit else srt(rows[0])) and not any(x[0] == "pred" for x in log)
            else:
                rb = ("op", "read_bool", (pred_wire,))
                ok = [x for x in log if x[0] == "pred"] == [("pred", "PRED")]
                if all(set(r) == set(rows[0]) for r in rows):
                    ok = ok and br == rb and names == srt(rows[0])
                else:
                    ok = ok and br == ("TUPLE-SUM", rb, [[x for x in srt(r) if x not in ("q", "r")] for r in rows]) and names == [x for x in srt(rows[0]) if x in ("q", "r")]
            # every output wire is the current wire of that place (after the statements ran)
            ok = ok and all(w[2] == (f"IN{ins.index(w[1])}" if w[1] in ins else None) for w in wires)
            return z3.BoolVal(bool(ok))
        tag = f"{'entry' if is_entry else 'inner'},inputs={'+'.join(inputs) or '-'},rows={'|'.join('+'.join(r) or '-' for r in rows)}{',to-exit' if to_exit else ''}"
        chk.prove_paths(f"compile_bb[{tag}]:inputs-in-signature/sorted-order;branch-value;outputs-per-successor-row", e.explore(lambda it, shape=shape: setup(it, shape)), post, func=f"{CC}:compile_bb")
    for k in ("guppylang_internals.compiler.core:DFContainer", "guppylang_internals.compiler.stmt_compiler:StmtCompiler", "guppylang_internals.compiler.expr_compiler:ExprCompiler",
              "guppylang_internals.std._internal.compiler.tket_bool:read_bool", f"{CC}:choose_vars_for_tuple_sum"):
        e.models.pop(k, None)
    chk.use_engine(e)


def _tuple_unpacking(chk):
    """unpacking assignments with a tuple on the right follow Python (StmtCompiler._assign_tuple; the
    obligations are C19's, run here under this property's name)"""
    from .C19 import tuple_unpacking
    tuple_unpacking(chk, tag="unpacking-assignment:")
