"""C24 — Unitary contexts reject non-unitary quantum operations.

Functions under contract (checker/unitary_checker.py): BBUnitaryChecker.check / _check_call /
_check_classical_args / _check_assign / visit_GlobalCall / visit_LocalCall / visit_TensorCall /
visit_BarrierExpr / visit_StateResultExpr / visit_PlaceNode, check_cfg_unitary,
check_invalid_under_dagger; definition/function.py add_unitarity_metadata; the UnitaryFlags enum.

The real visitor runs (through the `ast.NodeVisitor` prelude) over statement trees built from
/repo's own node classes.  _check_call is decided for the complete 8 x 8 flag domain x qubit /
classical arguments; coverage obligations say that a violating call is found WHEREVER it occurs:
as a statement, in the block's branch predicate, nested inside any argument position.
"""
import ast
import itertools
import os
import z3

from pyvc import SObj, ClassVal, Builtin, PyRaise, FlagVal
from .common import mk_engine, ast_from_source

TITLE = "unitary checker: exact flag rule over all flag pairs, and every call position (statements, branch predicates, nested arguments) is visited"
MOD = "guppylang_internals.checker.unitary_checker"
NODES = "guppylang_internals.nodes"
TYM = "guppylang_internals.tys.ty"

REPLAY = r'''
from guppylang import guppy, qubit
from guppylang.std.quantum import h, measure, discard
from guppylang.std.builtins import owned
from guppylang_internals.error import GuppyError
from guppylang_internals.experimental import enable_experimental_features
enable_experimental_features()
I = INPUT
import tempfile, importlib.util, os, sys, shutil
src = """
from guppylang import guppy, qubit
from guppylang.std.quantum import h
@guppy.declare
def nonunitary(q: qubit) -> bool: ...
@guppy.declare(unitary=True)
def ok(q: qubit, b: bool) -> None: ...
""" + I["program"]
d = tempfile.mkdtemp(dir=os.environ.get("TMPDIR", "/var/tmp")); fn = os.path.join(d, "replay_c24.py"); open(fn, "w").write(src)
spec = importlib.util.spec_from_file_location("replay_c24", fn); m = importlib.util.module_from_spec(spec); sys.modules["replay_c24"] = m
try:
    spec.loader.exec_module(m)
    try:
        m.main.check(); accepted = True; err = None
    except GuppyError as e:
        accepted = False; err = type(e.error).__name__
    out = {"violates": accepted, "accepted": accepted, "error": err, "required": "rejected with UnitaryCallError"}
except Exception as ex:
    out = {"violates": False, "error": repr(ex)[:300]}
shutil.rmtree(d, ignore_errors=True)
print(json.dumps(out))
'''
PROG_PRED = '''
@guppy(unitary=True)
def main(q: qubit) -> None:
    if nonunitary(q):
        h(q)
'''
PROG_NESTED = '''
@guppy(unitary=True)
def main(q: qubit, r: qubit) -> None:
    ok(q, nonunitary(r))
'''


def run(chk):
    e = mk_engine(chk)
    for q in ("BBUnitaryChecker.check", "BBUnitaryChecker._check_call", "BBUnitaryChecker._check_classical_args", "BBUnitaryChecker._check_assign",
              "BBUnitaryChecker.visit_GlobalCall", "BBUnitaryChecker.visit_LocalCall", "BBUnitaryChecker.visit_TensorCall",
              "BBUnitaryChecker.visit_BarrierExpr", "BBUnitaryChecker.visit_StateResultExpr", "BBUnitaryChecker.visit_PlaceNode",
              "check_cfg_unitary", "check_invalid_under_dagger"):
        e.func_info(MOD, q)
    e.func_info("guppylang_internals.definition.function", "add_unitarity_metadata")
    TY = ClassVal("Ty", builtin=True)
    e.models["guppylang_internals.ast_util:get_type"] = lambda it, a, k: a[0].fields["type"]
    e.models["guppylang_internals.tys.qubit:contain_qubit_ty"] = lambda it, a, k: a[0].fields["has_qubit"]
    CD = ClassVal("CallableDef", builtin=True)
    e.global_presets = {(MOD, "CallableDef"): CD}
    defs = {}
    e.global_presets[(MOD, "ENGINE")] = SObj(ClassVal("Engine", builtin=True), {"get_parsed": Builtin("get_parsed", lambda d: defs[d])})
    for n in ("UnitaryCallError", ):
        e.models[f"guppylang_internals.tys.errors:{n}"] = lambda it, a, k, n=n: SObj(ClassVal("Diag"), {"kind": n, "args": tuple(a)})
    e.models["guppylang_internals.checker.errors.generic:InvalidUnderDagger"] = lambda it, a, k: SObj(ClassVal("Diag"), {"kind": "InvalidUnderDagger", "args": tuple(a)})
    e.models["guppylang_internals.checker.errors.generic:UnsupportedError"] = lambda it, a, k: SObj(ClassVal("Diag"), {"kind": "UnsupportedError", "args": tuple(a)})

    def world(it):
        m = e.module(MOD)
        nm = e.module(NODES)
        UF = it.lookup_global(e.module(TYM), "UnitaryFlags")
        FT = ClassVal("FunctionType", builtin=True)
        it.ctx.mod_globals(m)["FunctionType"] = FT
        N = {k: it.lookup_global(nm, k) for k in ("GlobalCall", "LocalCall", "TensorCall", "BarrierExpr", "StateResultExpr", "PlaceNode")}
        A = __import__("pyvc.astmodel", fromlist=["ast_classes"]).ast_classes(e)

        def arg(qubit):
            return SObj(A["Name"], {"id": "a", "ctx": SObj(A["Load"], {}), "type": SObj(TY, {"has_qubit": qubit})})

        def fty(flags):
            return SObj(FT, {"unitary_flags": flags})

        def gcall(flags, args, qres=False):
            d = SObj(ClassVal("DefId", builtin=True), {})
            defs[d] = SObj(CD, {"ty": fty(flags)})
            return it.call(N["GlobalCall"], [], {"def_id": d, "args": args, "type_args": [], "type": SObj(TY, {"has_qubit": qres})})
        return m, UF, N, A, arg, fty, gcall

    def flagvals(UF):
        return [FlagVal(UF, v) for v in range(8)]

    # ---- _check_call: complete flag domain x (qubit | classical) arguments
    for cf, df, qub in itertools.product(range(8), range(8), (False, True)):
        def t(it, cf=cf, df=df, qub=qub):
            m, UF, N, A, arg, fty, gcall = world(it)
            C = it.lookup_global(m, "BBUnitaryChecker")
            c = SObj(C, {"flags": FlagVal(UF, cf)})
            node = gcall(FlagVal(UF, df), [arg(False), arg(qub)])
            return it.call_method(c, "visit", [node])
        paths = e.explore(t)

        def post(p, cf=cf, df=df, qub=qub):
            must = qub and (cf & df) != cf
            if must:
                ok = p.kind == "raise" and p.raised(e, "GuppyTypeError") and p.value.fields["error"].fields["kind"] == "UnitaryCallError" \
                    and p.value.fields["error"].fields["args"][1].value == (cf & ~df & 7)
                return z3.BoolVal(ok)
            return z3.BoolVal(p.kind == "return")
        chk.prove_paths(f"_check_call[context={cf},callee={df},qubit-arg={qub}]:rejected<=>qubit-arg/\\context-flags-not-subset-of-callee-flags",
                        paths, post, func=f"{MOD}:BBUnitaryChecker._check_call")

    # ---- coverage: a violating call is found wherever it occurs
    def scenario(name, build, must_raise, kind="UnitaryCallError", flags=7, program=None):
        def t(it):
            m, UF, N, A, arg, fty, gcall = world(it)
            C = it.lookup_global(m, "BBUnitaryChecker")
            stmts, pred = build(it, UF, N, A, arg, fty, gcall)
            bb = SObj(ClassVal("CheckedBB", builtin=True), {"statements": stmts, "branch_pred": pred})
            cfg = SObj(ClassVal("CheckedCFG", builtin=True), {"bbs": [bb]})
            return it.call(it.lookup_global(m, "check_cfg_unitary"), [cfg, FlagVal(UF, flags)], {})
        paths = e.explore(t)

        def post(p):
            if must_raise:
                return z3.BoolVal(p.kind == "raise" and p.raised(e, "GuppyError") and p.value.fields["error"].fields["kind"] == kind)
            return z3.BoolVal(p.kind == "return")
        chk.prove_paths(f"check_cfg_unitary[{name}]:{'rejected' if must_raise else 'accepted'}", paths, post, func=f"{MOD}:BBUnitaryChecker.check",
                        replay=(lambda m: {"script": REPLAY, "input": {"program": program}}) if program else None)

    def expr_stmt(A, v):
        return SObj(A["Expr"], {"value": v})
    NOF, UNI = 0, 7
    scenario("violating-call-as-statement", lambda it, UF, N, A, arg, fty, g: ([expr_stmt(A, g(FlagVal(UF, NOF), [arg(True)]))], None), True)
    scenario("violating-call-in-branch-predicate", lambda it, UF, N, A, arg, fty, g: ([], g(FlagVal(UF, NOF), [arg(True)])), True, program=PROG_PRED)
    scenario("violating-call-nested-in-first-argument", lambda it, UF, N, A, arg, fty, g:
             ([expr_stmt(A, g(FlagVal(UF, UNI), [g(FlagVal(UF, NOF), [arg(True)]), arg(False)]))], None), True)
    scenario("violating-call-nested-in-argument-after-a-qubit-argument", lambda it, UF, N, A, arg, fty, g:
             ([expr_stmt(A, g(FlagVal(UF, UNI), [arg(True), g(FlagVal(UF, NOF), [arg(True)])]))], None), True, program=PROG_NESTED)
    scenario("violating-call-in-assignment-value(control-context)", lambda it, UF, N, A, arg, fty, g:
             ([SObj(A["Assign"], {"targets": [arg(False)], "value": g(FlagVal(UF, NOF), [arg(True)])})], None), True, flags=1)
    scenario("violating-local-call", lambda it, UF, N, A, arg, fty, g:
             ([expr_stmt(A, it.call(N["LocalCall"], [], {"func": SObj(A["Name"], {"id": "f", "type": fty(FlagVal(UF, NOF))}), "args": [arg(True)]}))], None), True)
    scenario("violating-tensor-call", lambda it, UF, N, A, arg, fty, g:
             ([expr_stmt(A, it.call(N["TensorCall"], [], {"func": arg(False), "args": [arg(True)], "tensor_ty": fty(FlagVal(UF, NOF))}))], None), True)
    scenario("classical-arguments-only", lambda it, UF, N, A, arg, fty, g: ([expr_stmt(A, g(FlagVal(UF, NOF), [arg(False), arg(False)]))], None), False)
    scenario("callee-has-all-flags", lambda it, UF, N, A, arg, fty, g: ([expr_stmt(A, g(FlagVal(UF, UNI), [arg(True)]))], g(FlagVal(UF, UNI), [arg(True)])), False)
    scenario("barrier-and-state_result-always-allowed", lambda it, UF, N, A, arg, fty, g:
             ([expr_stmt(A, it.call(N["BarrierExpr"], [], {"args": [arg(True)], "func_ty": fty(FlagVal(UF, NOF))})),
               expr_stmt(A, it.call(N["StateResultExpr"], [], {"tag_value": None, "tag_expr": arg(False), "args": [arg(True)], "func_ty": fty(FlagVal(UF, NOF))}))], None), False)
    scenario("no-context-flags", lambda it, UF, N, A, arg, fty, g: ([expr_stmt(A, g(FlagVal(UF, NOF), [arg(True)]))], None), False, flags=0)
    # dagger: assignments and subscripted places
    scenario("dagger:assignment", lambda it, UF, N, A, arg, fty, g: ([SObj(A["Assign"], {"targets": [arg(False)], "value": arg(False)})], None), True, kind="InvalidUnderDagger", flags=2)
    scenario("dagger:aug-assignment", lambda it, UF, N, A, arg, fty, g: ([SObj(A["AugAssign"], {"target": arg(False), "op": SObj(A["Add"], {}), "value": arg(False)})], None), True, kind="InvalidUnderDagger", flags=2)
    scenario("control-only:assignment-allowed", lambda it, UF, N, A, arg, fty, g: ([SObj(A["Assign"], {"targets": [arg(False)], "value": arg(False)})], None), False, flags=1)

    def place_node(it, N, sub):
        cm = e.module("guppylang_internals.checker.core")
        V, SA = it.lookup_global(cm, "Variable"), it.lookup_global(cm, "SubscriptAccess")
        v = SObj(V, {"name": "x"})
        pl = SObj(SA, {"parent": v}) if sub else v
        return it.call(N["PlaceNode"], [], {"place": pl})
    scenario("dagger:subscripted-place", lambda it, UF, N, A, arg, fty, g: ([expr_stmt(A, place_node(it, N, True))], None), True, kind="UnsupportedError", flags=2)
    scenario("dagger:plain-variable-place", lambda it, UF, N, A, arg, fty, g: ([expr_stmt(A, place_node(it, N, False))], None), False, flags=2)

    # ---- check_invalid_under_dagger on real function ASTs
    for name, src, flags, must in (("loop", "def f():\n    for i in xs:\n        g(i)\n", 2, True), ("while", "def f():\n    while c:\n        g()\n", 2, True),
                                   ("assignment", "def f():\n    x = g()\n", 2, True), ("nested-assignment", "def f():\n    if c:\n        x: int = 1\n", 2, True),
                                   ("loop-inside-with-control-block", "def f():\n    with control(c):\n        for i in xs:\n            g(i)\n", 2, True),
                                   ("while-inside-with-power-block", "def f():\n    with power(2):\n        while c:\n            g()\n", 7, True),
                                   ("loop-inside-if", "def f():\n    if c:\n        for i in xs:\n            g(i)\n", 2, True),
                                   ("assignment-inside-with-block", "def f():\n    with control(c):\n        x = g()\n", 2, True),
                                   ("plain-calls", "def f():\n    g(q)\n    h(q)\n", 2, False), ("loop-without-dagger", "def f():\n    for i in xs:\n        x = i\n", 5, False)):
        def t(it, src=src, flags=flags):
            m = e.module(MOD)
            UF = it.lookup_global(e.module(TYM), "UnitaryFlags")
            fn = ast_from_source(it, src).fields["body"][0]
            return it.call(it.lookup_global(m, "check_invalid_under_dagger"), [fn, FlagVal(UF, flags)], {})
        paths = e.explore(t)
        chk.prove_paths(f"check_invalid_under_dagger[{name}]:{'rejected' if must else 'accepted'}", paths,
                        lambda p, must=must: z3.BoolVal((p.kind == "raise" and p.raised(e, "GuppyError") and p.value.fields["error"].fields["kind"] == "InvalidUnderDagger") if must else p.kind == "return"),
                        func=f"{MOD}:check_invalid_under_dagger")

    # ---- metadata records the flags
    for fl in range(8):
        def t(it, fl=fl):
            UF = it.lookup_global(e.module(TYM), "UnitaryFlags")
            f = SObj(ClassVal("HugrFunc", builtin=True), {"metadata": {}})
            it.call(it.lookup_global(e.module("guppylang_internals.definition.function"), "add_unitarity_metadata"), [f, FlagVal(UF, fl)], {})
            return f.fields["metadata"]
        chk.prove_paths(f"add_unitarity_metadata[{fl}]:metadata['unitary']==flags.value", e.explore(t), lambda p, fl=fl: z3.BoolVal(p.kind == "return" and p.value == {"unitary": fl}),
                        func="guppylang_internals.definition.function:add_unitarity_metadata")
    chk.expected_min_obligations = 150
    chk.assumptions += ["ast.NodeVisitor.visit/generic_visit = CPython's definitions (pyvc ast prelude); node classes are /repo's own (nodes.py) on top of stub ast classes",
                        "get_type / contain_qubit_ty are abstracted to an attribute of the argument node (which arguments are quantum is an input of the obligation)",
                        "ENGINE.get_parsed(def_id).ty is a lookup table of callee types"]
    chk.not_covered += ["with-block contexts (modifier_checker) feed the same check_cfg_unitary with ModifiedBlock.flags (C25)", "loops inside with-dagger blocks"]
    qubit_finder(chk)
    decorator_flags(chk)
    tensor_signature(chk)
    nested_with_flags(chk)
    chk.use_engine(e)


def qubit_finder(chk):
    """contain_qubit_ty / QubitFinder (tys/qubit.py) on REAL type objects: the answer is True exactly
    when the qubit type occurs anywhere in the type — at the top, as a type argument, or below any
    number of tuple / array-like / generic containers; a function value carries none.  (The unitary
    checker only compares flags for calls whose arguments `contain a qubit`.)"""
    import itertools
    Q = "guppylang_internals.tys.qubit"
    TYM_ = "guppylang_internals.tys.ty"
    e = mk_engine(chk)
    for q in ("contain_qubit_ty", "QubitFinder.visit", "QubitFinder._visit_OpaqueType", "QubitFinder._visit_TypeArg", "is_qubit_ty"):
        try:
            e.func_info(Q, q)
        except KeyError:
            pass
    e.func_info(TYM_, "ParametrizedTypeBase.visit")
    e.func_info(TYM_, "FunctionType.visit")

    # type shapes: nested tuples over leaves Q (qubit), I (int), O (another opaque type), A[..] an
    # array-like opaque container with one type argument and one constant argument
    def shapes(depth):
        if depth == 0:
            return ["Q", "I", "O"]
        sub = shapes(depth - 1)
        out = list(sub)
        for a in sub:
            out.append(("A", a))
            out.append(("T", a))
        for a, b in itertools.product(sub[:6], repeat=2):
            out.append(("T", a, b))
        return out
    all_shapes = []
    # S{..}: a struct with fields of the given types; G[x]: a generic struct Box[T] with one field of type T, applied to x
    STRUCTS = [("S", "Q"), ("S", "I"), ("S", "I", "Q"), ("S", ("A", "Q")), ("S", ("T", "I", "Q")), ("S", ("S", "Q")), ("S", ("S", "I"), "O"), ("A", ("S", "Q")), ("T", "I", ("S", "I", "Q")),
               ("G", "Q"), ("G", "I"), ("G", ("A", "Q")), ("S", ("G", "Q")), ("G", ("S", "I", "Q")), ("F", ("S", "Q"), "I")]
    for sh in shapes(2) + STRUCTS + [("T", ("A", ("T", "I", ("A", "Q"))), "I"), ("A", ("A", ("A", "Q"))), ("A", ("A", ("A", "I"))), ("F", ("A", ("A", "Q")), "I"), ("F", "I", ("T", "I", ("A", "Q"))), ("F", "I", "O")]:
        if sh not in all_shapes:
            all_shapes.append(sh)
    if chk.tier != "thorough":
        all_shapes = [sh for i, sh in enumerate(all_shapes) if i < 40 or i % 5 == 0 or isinstance(sh, tuple) and sh[0] == "F" or sh in STRUCTS]

    def has_q(sh):
        # a function VALUE carries no qubits, whatever its signature mentions
        return sh == "Q" or (isinstance(sh, tuple) and sh[0] != "F" and any(has_q(x) for x in sh[1:]))

    def show(sh):
        if isinstance(sh, str):
            return {"Q": "qubit", "I": "int", "O": "opaque"}[sh]
        return {"A": "array", "T": "tuple", "F": "fn", "S": "struct", "G": "Box"}[sh[0]] + "[" + ", ".join(show(x) for x in sh[1:]) + "]"
    n = 0
    for sh in all_shapes:
        def t(it, sh=sh):
            m = e.module(TYM_)
            OT, TT, NT, FT, FI, ST, BTV = (it.lookup_global(m, k) for k in ("OpaqueType", "TupleType", "NumericType", "FunctionType", "FuncInput", "StructType", "BoundTypeVar"))
            SF = it.lookup_global(e.module("guppylang_internals.definition.struct"), "StructField")
            IF = it.lookup_global(m, "InputFlags")
            TA = it.lookup_global(e.module("guppylang_internals.tys.arg"), "TypeArg")
            CA = it.lookup_global(e.module("guppylang_internals.tys.arg"), "ConstArg")
            qdef = SObj(ClassVal("OpaqueTypeDef", builtin=True), {"name": "qubit", "never_copyable": True, "never_droppable": True, "bound": None})
            odef = SObj(ClassVal("OpaqueTypeDef", builtin=True), {"name": "other", "never_copyable": False, "never_droppable": False, "bound": None})
            adef = SObj(ClassVal("OpaqueTypeDef", builtin=True), {"name": "array", "never_copyable": True, "never_droppable": False, "bound": None})
            qubit = it.call(OT, [[], qdef], {})
            e.models[f"{Q}:qubit_ty"] = lambda it2, a, k: qubit

            def build(x):
                if x == "Q":
                    return it.call(OT, [[], qdef], {})          # an equal, not identical, qubit type
                if x == "I":
                    return it.call(NT, [it.getattr(it.getattr(NT, "Kind"), "Int")], {})
                if x == "O":
                    return it.call(OT, [[], odef], {})
                if x[0] == "A":
                    return it.call(OT, [[it.call(TA, [build(x[1])], {}), it.call(CA, [it.call(it.lookup_global(e.module("guppylang_internals.tys.const"), "ConstValue"), [it.call(NT, [it.getattr(it.getattr(NT, "Kind"), "Nat")], {}), 2], {})], {})], adef], {})
                if x[0] == "T":
                    return it.call(TT, [[build(y) for y in x[1:]]], {})
                if x[0] == "S":
                    sdef = SObj(ClassVal("CheckedStructDef", builtin=True), {"name": "S", "params": [], "fields": [it.call(SF, [f"f{j}", build(y)], {}) for j, y in enumerate(x[1:])]})
                    return it.call(ST, [[], sdef], {})
                if x[0] == "G":
                    gdef = SObj(ClassVal("CheckedStructDef", builtin=True), {"name": "Box", "params": ["T"], "fields": [it.call(SF, ["v", it.call(BTV, ["T", 0, False, False], {})], {})]})
                    return it.call(ST, [[it.call(TA, [build(x[1])], {})], gdef], {})
                ins = [it.call(FI, [build(x[1]), it.getattr(IF, "NoFlags")], {})]
                return it.call(FT, [ins, build(x[2])], {})
            return it.call(it.lookup_global(e.module(Q), "contain_qubit_ty"), [build(sh)], {})
        paths = e.explore(t)
        chk.prove_paths(f"contain_qubit_ty[{show(sh)}]=={has_q(sh)}", paths, lambda p, sh=sh: z3.BoolVal(p.kind == "return" and p.value is has_q(sh)), func=f"{Q}:contain_qubit_ty",
                        replay=lambda m_, sh=sh: ({"script": REPLAY_STRUCT_Q, "input": {}} if "struct" in show(sh) or "Box" in show(sh) else
                                                  {"script": REPLAY_QUBIT_TY, "input": {"ty": show(sh).replace("opaque", "float").replace("fn[", "Callable[[").replace("array[", "array[").replace("]", "]")}}) if "fn" not in show(sh) else None)
        n += 1
    chk.record("contain_qubit_ty:shapes-explored", n >= 40, str(n), kind="reachability")
    e.models.pop(f"{Q}:qubit_ty", None)
    chk.use_engine(e)


REPLAY_NESTED_WITH = r'''
import tempfile, importlib.util, os, sys, shutil
import guppylang
guppylang.enable_experimental_features()
from guppylang_internals.error import GuppyError
src = """from guppylang import guppy
from guppylang.std.quantum import qubit
control = object(); dagger = object(); power = object()
@guppy.declare(control=True)
def pred(q: qubit) -> bool: ...
@guppy.declare(unitary=True)
def uni(q: qubit) -> None: ...
@guppy(dagger=True)
def in_flagged_function(c: qubit, q: qubit) -> None:
    with control(c):
        if pred(q):
            uni(q)
@guppy
def in_enclosing_with(c: qubit, q: qubit) -> None:
    with dagger:
        with control(c):
            if pred(q):
                uni(q)
@guppy
def three_deep(c: qubit, q: qubit) -> None:
    with dagger:
        with power(2):
            with control(c):
                while pred(q):
                    uni(q)
@guppy
def fine(c: qubit, q: qubit) -> None:
    with dagger:
        with control(c):
            uni(q)
"""
d = tempfile.mkdtemp(dir=os.environ.get("TMPDIR", "/var/tmp")); fn = os.path.join(d, "replay_c24n.py"); open(fn, "w").write(src)
spec = importlib.util.spec_from_file_location("replay_c24n", fn); m = importlib.util.module_from_spec(spec); sys.modules["replay_c24n"] = m
spec.loader.exec_module(m)
res = {}
for name in ("in_flagged_function", "in_enclosing_with", "three_deep", "fine"):
    try:
        getattr(m, name).check(); res[name] = "accepted"
    except GuppyError as ex:
        res[name] = "rejected:" + type(ex.error).__name__
shutil.rmtree(d, ignore_errors=True)
bad = [k for k in ("in_flagged_function", "in_enclosing_with", "three_deep") if res[k] == "accepted"] + ([] if res["fine"] == "accepted" else ["fine"])
print(json.dumps({"violates": bool(bad), "observed": res, "required": "`pred` lacks dagger: its use as a branch/loop condition inside a control block is rejected when the enclosing context requires dagger"}))
'''


def nested_with_flags(chk):
    """CFGBuilder.visit_With (cfg/builder.py): the CFG of a with block's body is checked (check_cfg_unitary,
    above) against cfg.unitary_flags — so that field has to hold every flag the context requires: the flags
    of the enclosing function / enclosing with blocks AND those of the block's own modifiers, at every depth."""
    from . import C03 as C3
    from .common import ast_from_source
    BM = "guppylang_internals.cfg.builder"
    e = C3.cfg_engine(chk)
    e.func_info(BM, "CFGBuilder.visit_With")
    e.models["guppylang_internals.experimental:check_modifiers_enabled"] = lambda it, a, k: None
    FL = {"dagger": 2, "control(c)": 1, "power(2)": 4}
    progs = []
    for a in FL:
        progs.append(([a], f"with {a}:\n    g(q)\n"))
        for b in FL:
            progs.append(([a, b], f"with {a}:\n    with {b}:\n        g(q)\n"))
            progs.append(([a + "+" + b], f"with {a}, {b}:\n    g(q)\n"))
    progs.append((["dagger", "power(2)", "control(c)"], "with dagger:\n    with power(2):\n        with control(c):\n            g(q)\n"))
    progs.append((["control(c)", "dagger", "dagger"], "with control(c):\n    f(q)\n    with dagger:\n        with dagger:\n            g(q)\n"))
    n = 0
    for outer in (0, 1, 2, 4, 7):
        for mods, src in progs:
            def t(it, outer=outer, src=src):
                m = e.module(BM)
                it.ctx.mod_globals(m)["tmp_vars"] = [f"%tmp{k}" for k in range(50)]
                UF = it.lookup_global(e.module(TYM), "UnitaryFlags")
                CB = it.lookup_global(m, "CFGBuilder")
                fd = ast_from_source(it, "def fn():\n" + "".join("    " + l + "\n" for l in src.splitlines())).fields["body"][0]
                cfg = it.call_method(it.call(CB, [], {}), "build", [fd.fields["body"], True, SObj(ClassVal("Globals", builtin=True), {}), FlagVal(UF, outer)])
                out = []

                def walk(c):
                    for bb in c.fields["bbs"]:
                        for st in bb.fields["statements"]:
                            if isinstance(st, SObj) and st.cls.name == "ModifiedBlock":
                                inner = st.fields["cfg"]
                                out.append(inner.fields["unitary_flags"].value)
                                walk(inner)
                walk(cfg)
                return out

            def post(p, outer=outer, mods=mods):
                if p.kind != "return":
                    return z3.BoolVal(False)
                want, acc = [], outer
                for md in mods:
                    own = 0
                    parts = md.split("+")
                    if sum(1 for x in parts if x == "dagger") % 2:
                        own |= 2
                    for x in parts:
                        if x != "dagger":
                            own |= FL[x]
                    acc |= own
                    want.append(acc)
                return z3.BoolVal(p.value == want)
            chk.prove_paths(f"visit_With[context={outer};{' > '.join(mods)}]:body-flags==enclosing-flags|own-modifier-flags(at-every-depth)", e.explore(t), post, func=f"{BM}:CFGBuilder.visit_With",
                            replay=lambda m_: {"script": REPLAY_NESTED_WITH, "input": {}})
            n += 1
    chk.record("visit_With:nestings-explored", n >= 80, str(n), kind="reachability")
    chk.use_engine(e)


REPLAY_STRUCT_Q = r'''
import tempfile, importlib.util, os, sys, shutil
import guppylang
guppylang.enable_experimental_features()
from guppylang_internals.error import GuppyError
src = """from guppylang import guppy
from guppylang.std.quantum import qubit
from guppylang.std.builtins import array
control = object()
T = guppy.type_var("T", copyable=False, droppable=False)
@guppy.struct
class S:
    q: qubit
@guppy.struct
class Deep:
    n: int
    s: S
@guppy.struct
class Box(Generic[T]):
    v: T
@guppy.declare
def takes_s(s: S) -> None: ...
@guppy.declare
def takes_deep(s: Deep) -> None: ...
@guppy.declare
def takes_box(s: Box[qubit]) -> None: ...
@guppy.declare
def takes_arr(s: array[S, 2]) -> None: ...
@guppy(control=True)
def f_s(s: S) -> None:
    takes_s(s)
@guppy(control=True)
def f_deep(s: Deep) -> None:
    takes_deep(s)
@guppy(control=True)
def f_box(s: Box[qubit]) -> None:
    takes_box(s)
@guppy(control=True)
def f_arr(s: array[S, 2]) -> None:
    takes_arr(s)
@guppy
def f_with(s: S, c: qubit) -> None:
    with control(c):
        takes_s(s)
"""
src = "from typing import Generic\n" + src
d = tempfile.mkdtemp(dir=os.environ.get("TMPDIR", "/var/tmp")); fn = os.path.join(d, "replay_c24s.py"); open(fn, "w").write(src)
spec = importlib.util.spec_from_file_location("replay_c24s", fn); m = importlib.util.module_from_spec(spec); sys.modules["replay_c24s"] = m
spec.loader.exec_module(m)
res = {}
for name in ("f_s", "f_deep", "f_box", "f_arr", "f_with"):
    try:
        getattr(m, name).check(); res[name] = "accepted"
    except GuppyError as ex:
        res[name] = "rejected:" + type(ex.error).__name__
shutil.rmtree(d, ignore_errors=True)
print(json.dumps({"violates": any(v == "accepted" for v in res.values()), "observed": res, "required": "a struct holding a qubit passed to a callee without the control flag is rejected in a control context"}))
'''


REPLAY_TENSOR = r'''
import tempfile, importlib.util, os, sys, shutil
import guppylang
guppylang.enable_experimental_features()
from guppylang_internals.error import GuppyError
I = INPUT
NAMES = {0: "", 1: "control=True", 2: "dagger=True", 4: "power=True", 3: "control=True, dagger=True", 5: "control=True, power=True", 6: "dagger=True, power=True", 7: "unitary=True"}
src = f"""from guppylang import guppy
from guppylang.std.quantum import qubit
from guppylang.std.builtins import owned
@guppy.declare({NAMES[I['a']]})
def f(q: qubit @owned) -> qubit: ...
@guppy.declare({NAMES[I['b']]})
def g(q: qubit @owned) -> qubit: ...
""" + "".join(f"""@guppy({NAMES[c]})
def caller{c}(q1: qubit @owned, q2: qubit @owned) -> tuple[qubit, qubit]:
    return (f, g)(q1, q2)
""" for c in range(8))
d = tempfile.mkdtemp(dir=os.environ.get("TMPDIR", "/var/tmp")); fn = os.path.join(d, "replay_c24t.py"); open(fn, "w").write(src)
spec = importlib.util.spec_from_file_location("replay_c24t", fn); m = importlib.util.module_from_spec(spec); sys.modules["replay_c24t"] = m
spec.loader.exec_module(m)
bad = []
for c in range(8):
    try:
        getattr(m, f"caller{c}").check(); got = "accepted"
    except GuppyError as ex:
        got = "rejected:" + type(ex.error).__name__
    must_reject = (c & I["a"] & I["b"]) != c
    if must_reject != (got != "accepted"):
        bad.append(f"context flags {c}: {got}, required {'rejected' if must_reject else 'accepted'}")
shutil.rmtree(d, ignore_errors=True)
print(json.dumps({"violates": bool(bad), "observed": bad, "required": "a tensor (f, g) with component flags a, b is accepted in a context exactly when every component has every flag the context requires",
                  "detail": f"tensor of callees with flags {I['a']} and {I['b']}: " + "; ".join(bad)}))
'''


def tensor_signature(chk):
    """function_tensor_signature (tys/ty.py): the type of a tensor `(f, g)`, which visit_TensorCall hands to
    _check_call.  The flags it carries are exactly the flags EVERY component has — a flag too many and a
    context requiring F accepts a tensor with a component lacking F; a flag too few and a tensor of
    functions that all have F is rejected in a context requiring F ("such code is otherwise accepted")."""
    e = mk_engine(chk)
    e.func_info(TYM, "function_tensor_signature")
    m = e.module(TYM)
    for a, b in itertools.product(range(8), repeat=2):
        def t(it, a=a, b=b):
            UF = it.lookup_global(m, "UnitaryFlags")
            FTy = it.lookup_global(m, "FunctionType")
            NoneT = it.lookup_global(m, "NoneType")
            fs = [it.call(FTy, [[], it.call(NoneT, [], {})], {"unitary_flags": FlagVal(UF, v)}) for v in (a, b)]
            return it.call(it.lookup_global(m, "function_tensor_signature"), [fs], {})

        def post(p, a=a, b=b):
            if p.kind != "return":
                return z3.BoolVal(False)
            fl = p.value.fields["unitary_flags"]
            return z3.BoolVal(isinstance(fl, FlagVal) and fl.value == (a & b))
        chk.prove_paths(f"function_tensor_signature[{a},{b}]:carries-exactly-the-flags-every-component-has", e.explore(t), post, func=f"{TYM}:function_tensor_signature",
                        replay=lambda m_, a=a, b=b: {"script": REPLAY_TENSOR, "input": {"a": a, "b": b}})
    chk.use_engine(e)


REPLAY_QUBIT_TY = r'''
import re, tempfile, importlib.util, os, sys, shutil
I = INPUT
ann = re.sub(r"array\[(.*?)\]", lambda m: m.group(0), I["ty"])
def arr(s):
    # array[X] -> array[X, 2]   (innermost first)
    out, depth = "", []
    i = 0
    while i < len(s):
        if s.startswith("array[", i): depth.append("a"); out += "array["; i += 6; continue
        if s.startswith("tuple[", i): depth.append("t"); out += "tuple["; i += 6; continue
        if s[i] == "]":
            k = depth.pop(); out += ", 2]" if k == "a" else "]"; i += 1; continue
        out += s[i]; i += 1
    return out
src = f"""from guppylang import guppy
from guppylang.std.builtins import array
from guppylang.std.quantum import qubit
@guppy.declare
def use(x: {arr(I['ty'])}) -> None: ...
"""
d = tempfile.mkdtemp(dir=os.environ.get("TMPDIR", "/var/tmp")); fn = os.path.join(d, "replay_c24q.py"); open(fn, "w").write(src)
spec = importlib.util.spec_from_file_location("replay_c24q", fn); m = importlib.util.module_from_spec(spec); sys.modules["replay_c24q"] = m
try:
    spec.loader.exec_module(m)
    from guppylang_internals.engine import ENGINE
    from guppylang_internals.tys.qubit import contain_qubit_ty
    ty = ENGINE.get_checked(m.use.id).ty.inputs[0].ty
    got = contain_qubit_ty(ty); want = "qubit" in I["ty"]
    out = {"violates": got != want, "type": str(ty), "contain_qubit_ty": got, "required": want}
except Exception as ex:
    out = {"violates": False, "error": repr(ex)[:300]}
shutil.rmtree(d, ignore_errors=True)
print(json.dumps(out))
'''


def decorator_flags(chk):
    """_parse_kwargs (guppylang/decorator.py): the unitary / control / dagger / power keywords of
    @guppy(...), @guppy.declare(...), @guppy.comptime(...) become the function's UnitaryFlags: a flag
    is set exactly when its keyword is given a TRUE value (absent and False both leave it unset); any
    other keyword is a TypeError.  The decorator object `guppy(**kw)` (_with_optional_kwargs) may be
    applied to several functions: each gets the declared flags.  All 3^4 keyword combinations."""
    import itertools
    D = "guppylang.decorator"
    e = mk_engine(chk)
    e.func_info(D, "_parse_kwargs")
    e.func_info(D, "_with_optional_kwargs")
    m = e.module(D)
    NAMES = ("unitary", "control", "dagger", "power")
    BIT = {"unitary": "Unitary", "control": "Control", "dagger": "Dagger", "power": "Power"}
    n = 0
    for combo in itertools.product(("absent", True, False), repeat=4):
        for extra in ((), ("frobnicate",)) if combo in (("absent",) * 4, (True, False, "absent", True)) else ((),):
            def t(it, combo=combo, extra=extra):
                kw = {k: v for k, v in zip(NAMES, combo) if v != "absent"}
                for x in extra:
                    kw[x] = True
                UF = it.lookup_global(e.module("guppylang_internals.tys.ty"), "UnitaryFlags")
                want = 0
                for k, v in zip(NAMES, combo):
                    if v is True:
                        want |= it.getattr(UF, BIT[k]).value
                if extra:
                    return it.call(it.lookup_global(m, "_parse_kwargs"), [kw], {}), want, None
                # the decorator object guppy(**kw) applied to TWO functions: both get the declared flags
                loc = it.exec_snippet(m, "def DEC(f, kwargs):\n    return (f, _parse_kwargs(kwargs))\n", {})
                wrapper = it.call(it.lookup_global(m, "_with_optional_kwargs"), [loc["DEC"], (), kw], {})
                r1 = it.call(wrapper, ["f1"], {})
                r2 = it.call(wrapper, ["f2"], {})
                return r1[1], want, r2
            paths = e.explore(t)

            def post(p, extra=extra):
                if extra:
                    return z3.BoolVal(p.kind == "raise" and p.raised(e, "TypeError"))
                if p.kind != "return":
                    return z3.BoolVal(False)
                r, want, r2 = p.value
                return z3.BoolVal(getattr(r, "value", None) == want and r2[0] == "f2" and getattr(r2[1], "value", None) == want)
            tag = ",".join(f"{k}={v}" for k, v in zip(NAMES, combo) if v != "absent") or "no-keywords"
            chk.prove_paths(f"_parse_kwargs[{tag}{'+unknown-keyword' if extra else ''}]:flag-set<=>keyword-true,also-for-the-second-function-the-same-decorator-object-is-applied-to;unknown-keyword->TypeError", paths, post, func=f"{D}:_parse_kwargs",
                            replay=lambda m_: {"script": REPLAY_KWARGS, "input": {}})
            n += 1
    chk.record("_parse_kwargs:combinations-explored", n >= 81, str(n), kind="reachability")
    # every decorator that parses the flags hands them to the definition it creates (a parsed-and-dropped
    # flag set leaves a declared-unitary function unusable in unitary contexts, and its HUGR without the flags)
    src_path = os.path.join(chk.repo, "guppylang/src/guppylang/decorator.py")
    tree = ast.parse(open(src_path).read())
    for fn in ast.walk(tree):
        if not isinstance(fn, ast.FunctionDef):
            continue
        for inner in [x for x in ast.walk(fn) if isinstance(x, ast.FunctionDef) and x is not fn and x.name == "dec"]:
            for st in ast.walk(inner):
                if isinstance(st, ast.Assign) and isinstance(st.value, ast.Call) and ast.unparse(st.value.func) == "_parse_kwargs" and isinstance(st.targets[0], ast.Name):
                    var = st.targets[0].id
                    used = any(isinstance(x, ast.Name) and x.id == var and isinstance(x.ctx, ast.Load) for x in ast.walk(inner))
                    o = chk.record(f"decorator[{fn.name}]:the-parsed-flags-reach-the-definition(the result of _parse_kwargs is used)", used, f"`{var}` is assigned and never read" if not used else "",
                                   func=f"{D}:_GuppyDummy.{fn.name}", backend="structural")
                    if not used:
                        from pyvc.report import run_replay
                        res = run_replay(REPLAY_COMPTIME_FLAGS, {}, chk.repo, timeout=600)
                        o.replay = {"confirmed": bool(res.get("violates")), "script": REPLAY_COMPTIME_FLAGS, "input": {}, "native": res}
    chk.use_engine(e)


REPLAY_COMPTIME_FLAGS = r'''
import tempfile, importlib.util, os, sys, shutil
import guppylang
guppylang.enable_experimental_features()
from guppylang_internals.error import GuppyError
src = """from guppylang import guppy
from guppylang.std.quantum import qubit, h
control = object()
@guppy.comptime(unitary=True)
def ct(q: qubit) -> None:
    h(q)
@guppy(unitary=True)
def rg(q: qubit) -> None:
    h(q)
@guppy
def calls_comptime(q: qubit, c: qubit) -> None:
    with control(c):
        ct(q)
@guppy
def calls_regular(q: qubit, c: qubit) -> None:
    with control(c):
        rg(q)
"""
d = tempfile.mkdtemp(dir=os.environ.get("TMPDIR", "/var/tmp")); fn = os.path.join(d, "replay_c24c.py"); open(fn, "w").write(src)
spec = importlib.util.spec_from_file_location("replay_c24c", fn); m = importlib.util.module_from_spec(spec); sys.modules["replay_c24c"] = m
spec.loader.exec_module(m)
res = {}
for name in ("calls_regular", "calls_comptime"):
    try:
        getattr(m, name).check(); res[name] = "accepted"
    except GuppyError as ex:
        res[name] = "rejected:" + type(ex.error).__name__
shutil.rmtree(d, ignore_errors=True)
print(json.dumps({"violates": res["calls_comptime"] != "accepted" and res["calls_regular"] == "accepted", "observed": res, "required": "a function declared unitary=True is accepted in a control block, comptime or not"}))
'''


REPLAY_KWARGS = r'''
import tempfile, importlib.util, os, sys, shutil
from guppylang_internals.error import GuppyError
src = """from guppylang import guppy
from guppylang.std.quantum import qubit
@guppy.declare(dagger=False)
def plain(q: qubit) -> None: ...
@guppy(dagger=True)
def ctx(q: qubit) -> None:
    plain(q)
dec = guppy(dagger=True)
@dec
def first(q: qubit) -> None:
    plain(q)
@dec
def second(q: qubit) -> None:
    plain(q)
"""
d = tempfile.mkdtemp(dir=os.environ.get("TMPDIR", "/var/tmp")); fn = os.path.join(d, "replay_c24k.py"); open(fn, "w").write(src)
spec = importlib.util.spec_from_file_location("replay_c24k", fn); m = importlib.util.module_from_spec(spec); sys.modules["replay_c24k"] = m
try:
    spec.loader.exec_module(m)
    accepted = []
    for name in ("ctx", "first", "second"):
        try:
            getattr(m, name).check(); accepted.append(name)
        except GuppyError:
            pass
    out = {"violates": bool(accepted), "accepted": accepted, "required": "all three rejected: `plain` is declared dagger=False and is called with a qubit from a dagger context (first/second share one decorator object)"}
except Exception as ex:
    out = {"violates": False, "error": repr(ex)[:300]}
shutil.rmtree(d, ignore_errors=True)
print(json.dumps(out))
'''
