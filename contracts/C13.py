"""C13 — Generic instantiation and monomorphization preserve meaning.

Functions under contract: every `transform` of tys/ty.py, tys/const.py, tys/arg.py;
Instantiator._transform_BoundTypeVar/_transform_BoundConstVar (tys/subst.py);
FunctionType.instantiate_partial/instantiate (tys/ty.py), TypeParam/ConstParam.with_idx,
instantiate_bounds, to_bound (tys/param.py); compile_variable_idx (compiler/core.py).

The specification is TEXTUAL SUBSTITUTION, written here independently of the code (`subst`): walk
the type, replace every bound variable i by sigma(i), keep everything else (flags, names, defn,
unitary flags, comptime arguments are types too).
  S1  homomorphism: `x.transform(T)` asks T about x first; otherwise it rebuilds THE SAME node
      with every child transformed once and every other field kept — for every node class.
  S2  Instantiator leaves with a SYMBOLIC de Bruijn index against instantiations of length 0..3.
  S3  instantiate_partial == subst under sigma_args, remaining parameters re-indexed densely in
      order with their bounds substituted; composition law
      f.ip(a).ip(b) == f.ip(a (+) b) for every None-pattern of a and b (closed arguments).
  S4  compile_variable_idx(i, mono) == #{ j < i | mono[j] is None } for symbolic patterns, and it
      agrees with the index instantiate_partial gives the same parameter.
"""
import itertools
import z3

from pyvc import SObj, ClassVal, Builtin, SInt, SBool, PyRaise, EnumVal, FlagVal
from .common import mk_engine, model_val

TITLE = "type transformation is a homomorphism; instantiate_partial is textual substitution with dense re-indexing and composes; HUGR variable indices agree"
TY = "guppylang_internals.tys.ty"
CO = "guppylang_internals.tys.const"
AR = "guppylang_internals.tys.arg"
PA = "guppylang_internals.tys.param"
SU = "guppylang_internals.tys.subst"
CC = "guppylang_internals.compiler.core"

# derived fields and functools.cached_property caches are not part of a type's identity
SKIP_FIELDS = {"args", "hugr_bound", "copyable", "droppable", "intrinsically_copyable", "intrinsically_droppable",
               "unsolved_vars", "bound_vars", "input_names", "fields"}


def same(a, b, skip=SKIP_FIELDS):
    """Structural equality of interpreter values (class + every stored field)."""
    if isinstance(a, SObj) and isinstance(b, SObj):
        if a is b:
            return True
        if a.cls is not b.cls:
            return False
        ka = {k for k in a.fields if k not in skip and not k.startswith("_")}
        kb = {k for k in b.fields if k not in skip and not k.startswith("_")}
        return ka == kb and all(same(a.fields[k], b.fields[k], skip) for k in ka)
    if isinstance(a, (list, tuple)) and isinstance(b, (list, tuple)):
        return len(a) == len(b) and all(same(x, y, skip) for x, y in zip(a, b))
    if isinstance(a, (SObj, list, tuple)) or isinstance(b, (SObj, list, tuple)):
        return False
    if isinstance(a, FlagVal) and isinstance(b, FlagVal):
        return a.cls is b.cls and a.value == b.value
    return a is b or a == b


class K:
    """Constructors of real type objects inside the interpreter."""

    def __init__(self, e, it):
        self.e, self.it = e, it
        g = lambda m, n: it.lookup_global(e.module(m), n)
        self.BTV, self.ETV, self.NoneT, self.Num, self.Fn, self.Tup, self.Opq, self.Str, self.FI, self.IF, self.UF = (
            g(TY, n) for n in ("BoundTypeVar", "ExistentialTypeVar", "NoneType", "NumericType", "FunctionType", "TupleType", "OpaqueType", "StructType", "FuncInput", "InputFlags", "UnitaryFlags"))
        self.CV, self.BCV, self.ECV = (g(CO, n) for n in ("ConstValue", "BoundConstVar", "ExistentialConstVar"))
        self.TA, self.CA = g(AR, "TypeArg"), g(AR, "ConstArg")
        self.TP, self.CP = g(PA, "TypeParam"), g(PA, "ConstParam")

    def call(self, c, *a, **k):
        return self.it.call(c, list(a), k)

    def nat(self):
        return self.call(self.Num, self.Num.attrs["Kind"].members["Nat"])

    def int_(self):
        return self.call(self.Num, self.Num.attrs["Kind"].members["Int"])

    def flt(self):
        return self.call(self.Num, self.Num.attrs["Kind"].members["Float"])

    def tv(self, i, name=None):
        return self.call(self.BTV, name or f"T{i}", i, True, True)

    def cv(self, i, ty=None, name=None):
        return self.call(self.BCV, ty if ty is not None else self.nat(), name or f"n{i}", i)

    def inp(self, ty, flags="NoFlags"):
        return self.call(self.FI, ty, self.it.getattr(self.IF, flags))


def mk_T(it, mapping):
    """Recording transformer: replaces exactly the objects in `mapping` (by identity)."""
    log = []

    def tr(x):
        log.append(x)
        for k, v in mapping:
            if k is x:
                return v
        return None
    return SObj(ClassVal("RecordingTransformer", builtin=True), {"transform": Builtin("transform", tr)}), log


def bounded(chk):
    """BOUNDED: generic definition vs textually specialised copy on the emulator (C13_oracle.py)"""
    import json
    from pyvc.report import run_replay
    from .C13_oracle import ORACLE, DRIVER
    res = run_replay(ORACLE + DRIVER, {}, chk.repo, timeout=3000)
    if "evaluations" not in res:
        chk.undecided("bounded:generic-vs-specialised", "oracle run failed: " + json.dumps(res)[:800])
        return
    w = res.get("witness")
    o = chk.bounded_result("bounded:generic-definition==textually-specialised-copy-on-the-emulator(type, nat, bool-const and comptime parameters; generic structs; composition; partial specialisation)",
                           not res.get("violates"), res["evaluations"], detail=res.get("detail") or f"{res['evaluations']} result components of {ORACLE.count(chr(10) + '    (' + chr(34))} definitions x 1-3 instantiations agree", witness=w,
                           func="guppylang_internals.definition.function:CheckedFunctionDef.monomorphize")
    if w:
        o.replay.update({"script": ORACLE + DRIVER, "input": {"only": w["definition"]}})


def run(chk):
    chk.section("homomorphism", lambda: s1(chk))
    chk.section("instantiator-leaves", lambda: s2(chk))
    chk.section("instantiate_partial", lambda: s3(chk))
    chk.section("compile_variable_idx", lambda: s4(chk))
    chk.section("method-parameters", lambda: s5(chk))
    chk.section("mono-args-scope", lambda: s6(chk))
    chk.section("partially_monomorphize_args", lambda: s7(chk))
    chk.section("bounded", lambda: bounded(chk))
    chk.expected_min_obligations = 60
    chk.assumptions += [
        "parameter lists of length <= 3 and instantiations of length <= 3 are enumerated (list lengths are a bound; the leaves substituted are arbitrary objects, de Bruijn indices in S2/S4 are symbolic)",
        "structural induction over type trees is applied by hand: S1 is the induction step for every node class, S2 the base case for variables",
        "dataclasses.replace / dataclass-generated __init__/__eq__ as modelled by pyvc",
    ]
    chk.not_covered += ["CheckedFunctionDef.monomorphize and the HUGR emitted for (partially) monomorphized bodies as contracts (the bounded layer runs 15 generic definitions against their textually specialised copies on the emulator; borrowed arrays of generic size cannot be lowered by this sandbox's selene toolchain and are outside it)",
                        "check_arg / type-argument inference (C12)"]


# ------------------------------------------------------------------------------ S1
def s1(chk):
    e = mk_engine(chk)
    for m, qs in ((TY, ["BoundTypeVar.transform", "ExistentialTypeVar.transform", "NoneType.transform", "NumericType.transform", "FunctionType.transform",
                        "TupleType.transform", "OpaqueType.transform", "StructType.transform"]),
                  (CO, ["ConstValue.transform", "BoundConstVar.transform", "ExistentialConstVar.transform"]), (AR, ["TypeArg.transform", "ConstArg.transform"])):
        for q in qs:
            e.func_info(m, q)
    DEFN = SObj(ClassVal("TypeDefStub", builtin=True), {"name": "stub", "params": [], "never_copyable": False, "never_droppable": False})

    def cases(k):
        a, b, c = k.tv(0, "A"), k.tv(1, "B"), k.tv(2, "C")
        a2, b2, c2 = k.int_(), k.flt(), k.call(k.Tup, [k.int_()])
        n0 = k.cv(3, name="n")
        n0r = k.call(k.CV, k.nat(), 7)
        tyA, tyAr = k.tv(4, "TyOfConst"), k.nat()
        rep = [(a, a2), (b, b2), (c, c2), (n0, n0r), (tyA, tyAr)]
        ta, ca = k.call(k.TA, a), k.call(k.CA, n0)
        uf = k.UF.members["Dagger"] if hasattr(k.UF, "members") else k.it.getattr(k.UF, "Dagger")
        yield "BoundTypeVar", k.tv(9), None, rep
        yield "ExistentialTypeVar", k.call(k.ETV, "E", 5, True, True), None, rep
        yield "NoneType", k.call(k.NoneT), None, rep
        yield "NumericType", k.int_(), None, rep
        yield "ConstValue", k.call(k.CV, k.nat(), 3), None, rep
        yield "TupleType[preserve=False]", k.call(k.Tup, [a, b]), lambda: k.call(k.Tup, [a2, b2]), rep
        yield "TupleType[preserve=True]", k.call(k.Tup, [a, b], True), lambda: k.call(k.Tup, [a2, b2], True), rep
        yield "TypeArg", ta, lambda: k.call(k.TA, a2), rep
        yield "ConstArg", ca, lambda: k.call(k.CA, n0r), rep
        yield "BoundConstVar(type-of-const-is-transformed)", k.call(k.BCV, tyA, "x", 6), lambda: k.call(k.BCV, tyAr, "x", 6), rep
        yield "ExistentialConstVar(type-of-const-is-transformed)", k.call(k.ECV, tyA, "x", 8), lambda: k.call(k.ECV, tyAr, "x", 8), rep
        yield "OpaqueType", k.call(k.Opq, [k.call(k.TA, a), k.call(k.CA, n0)], DEFN), lambda: k.call(k.Opq, [k.call(k.TA, a2), k.call(k.CA, n0r)], DEFN), rep
        yield "StructType", k.call(k.Str, [k.call(k.TA, b)], DEFN), lambda: k.call(k.Str, [k.call(k.TA, b2)], DEFN), rep
        yield ("FunctionType[comptime-args,unitary-flags]",
               k.call(k.Fn, [k.inp(a), k.inp(b, "Owned")], c, [], [k.call(k.CA, n0)], uf),
               lambda: k.call(k.Fn, [k.inp(a2), k.inp(b2, "Owned")], c2, [], [k.call(k.CA, n0r)], uf), rep)
        p0 = k.call(k.TP, 0, "P", True, True)
        yield ("FunctionType[parametrized:params-kept]",
               k.call(k.Fn, [k.inp(a)], b, [p0]), lambda: k.call(k.Fn, [k.inp(a2)], b2, [p0]), rep)

    names = []

    def t_names(it):
        names.extend(n for n, *_ in cases(K(e, it)))
    e.explore(t_names)
    for idx, name in enumerate(names):
        def t(it, idx=idx):
            k = K(e, it)
            _, obj, want, rep = list(cases(k))[idx]
            T, log = mk_T(it, rep)
            res = it.call_method(obj, "transform", [T])
            exp = want() if want is not None else obj
            # the transformer is asked about the node itself before anything else
            asked_first = bool(log) and log[0] is obj
            REPL = SObj(ClassVal("Replacement", builtin=True), {})
            T2, _ = mk_T(it, [(obj, REPL)])
            res2 = it.call_method(obj, "transform", [T2])
            return res, exp, asked_first, res2 is REPL
        paths = e.explore(t)
        chk.prove_paths(f"{name}.transform:asks-the-transformer-first/\\otherwise-same-node-with-every-child-transformed-and-every-other-field-kept",
                        paths, lambda p: z3.BoolVal(p.kind == "return" and same(p.value[0], p.value[1]) and p.value[2] and p.value[3]),
                        func=f"{TY}:{name.split('[')[0].split('(')[0]}.transform",
                        replay=lambda m: {"script": REPLAY_FN, "input": {}})
    chk.record("transform:every-class-with-a-transform-method-is-covered", covered_all(e, names), str(names), kind="reachability")
    chk.use_engine(e)


def covered_all(e, names):
    import ast
    have = {n.split("[")[0].split("(")[0] for n in names}
    for m in (TY, CO, AR):
        for c in ast.walk(e.module(m).tree):
            if isinstance(c, ast.ClassDef) and any(isinstance(f, ast.FunctionDef) and f.name == "transform" for f in c.body):
                if c.name not in have:
                    return False
    return True


REPLAY_FN = r'''
from guppylang_internals.tys.ty import FunctionType, FuncInput, InputFlags, NumericType, UnitaryFlags
from guppylang_internals.tys.param import ConstParam
from guppylang_internals.tys.arg import ConstArg
from guppylang_internals.tys.const import ConstValue
from guppylang_internals.tys.subst import Substituter
nat = NumericType(NumericType.Kind.Nat); i = NumericType(NumericType.Kind.Int)
f = FunctionType([FuncInput(nat, InputFlags.Comptime)], i, [ConstParam(0, "n", nat, from_comptime_arg=True)], unitary_flags=UnitaryFlags.Dagger)
g = f.instantiate([ConstArg(ConstValue(nat, 3))])
h = g.transform(Substituter({}))
bad = []
if g.unitary_flags != UnitaryFlags.Dagger: bad.append("instantiate drops unitary_flags")
if h != g: bad.append(f"identity substitution changes the type: comptime_args {g.comptime_args} -> {h.comptime_args}, flags {g.unitary_flags} -> {h.unitary_flags}")
print(json.dumps({"violates": bool(bad), "detail": bad}))
'''


REPLAY_IP = r'''
from guppylang_internals.tys.ty import FunctionType, FuncInput, InputFlags, NumericType, TupleType, BoundTypeVar
from guppylang_internals.tys.param import ConstParam, TypeParam
from guppylang_internals.tys.arg import ConstArg, TypeArg
from guppylang_internals.tys.const import ConstValue, BoundConstVar
I = INPUT
nat = NumericType(NumericType.Kind.Nat); i_ = NumericType(NumericType.Kind.Int); fl = NumericType(NumericType.Kind.Float)
kinds, pat = I["kinds"], I["pattern"]
params, tys, cas = [], [], []
for i, kd in enumerate(kinds):
    if kd == "T": params.append(TypeParam(i, f"T{i}", True, True)); tys.append(BoundTypeVar(f"T{i}", i, True, True))
    elif kd == "N": params.append(ConstParam(i, f"n{i}", nat)); cas.append(ConstArg(BoundConstVar(nat, f"n{i}", i)))
    else:
        t = BoundTypeVar(f"T{i-1}", i - 1, True, True); params.append(ConstParam(i, f"x{i}", t)); cas.append(ConstArg(BoundConstVar(t, f"x{i}", i)))
f = FunctionType([FuncInput(t, InputFlags.NoFlags) for t in tys] + [FuncInput(TupleType(list(tys)), InputFlags.NoFlags)], TupleType(list(reversed(tys))), params, cas)
def arg(i):
    kd = kinds[i]
    if kd == "T": return TypeArg(nat if i % 2 == 0 else TupleType([i_, fl]))
    return ConstArg(ConstValue(nat, (10 if kd == "N" else 20) + i))
a = [arg(i) if g else None for i, g in enumerate(pat)]
r1 = f.instantiate_partial(a)
bad = []
# every occurrence of a remaining const variable carries the type of its (re-indexed) parameter
for ca in r1.comptime_args:
    c = ca.const
    if isinstance(c, BoundConstVar):
        p = r1.params[c.idx]
        if not isinstance(p, ConstParam) or p.ty != c.ty:
            bad.append(f"variable {c.display_name}#{c.idx} has type {c.ty!r} but parameter {p.name}: {getattr(p, 'ty', None)!r}")
rest = [i for i, g in enumerate(pat) if not g]
r2 = r1.instantiate_partial([arg(i) for i in rest]) if rest else r1
one = f.instantiate_partial([arg(i) for i in range(len(kinds))])
if r2 != one: bad.append(f"two steps {r2} != one step {one}")
print(json.dumps({"violates": bool(bad), "detail": bad}))
'''


# ------------------------------------------------------------------------------ S2
def s2(chk):
    e = mk_engine(chk)
    for q in ("Instantiator._transform_BoundTypeVar", "Instantiator._transform_BoundConstVar", "Instantiator.__init__"):
        e.func_info(SU, q)
    idx = z3.Int("idx")
    for n in range(4):
        for pattern in itertools.product(("T", "C", None), repeat=n):
            for partial in (False, True):
                if None in pattern and not partial:
                    continue

                def t(it, n=n, pattern=pattern, partial=partial):
                    k = K(e, it)
                    I = it.lookup_global(e.module(SU), "Instantiator")
                    it.ctx.assume(idx >= 0)
                    marks = [SObj(ClassVal("ArgTy", builtin=True), {"i": i}) for i in range(n)]
                    inst = [None if p is None else (k.call(k.TA, marks[i]) if p == "T" else k.call(k.CA, marks[i])) for i, p in enumerate(pattern)]
                    ins = it.call(I, [inst], {"allow_partial": True} if partial else {})
                    out = {}
                    for kind in ("T", "C"):
                        var = k.call(k.BTV, "V", SInt(idx), True, False) if kind == "T" else k.call(k.BCV, k.nat(), "v", SInt(idx))
                        # only ask for a variable of the matching kind when the index is instantiated
                        try:
                            out[kind] = ("ok", it.call_method(ins, "transform", [var]), var)
                        except PyRaise as ex:
                            out[kind] = ("raise", ex.exc, var)
                    return out, marks
                paths = e.explore(t)

                def post(p, n=n, pattern=pattern):
                    if p.kind != "return":
                        return z3.BoolVal(False)
                    out, marks = p.value
                    conj = []
                    for kind in ("T", "C"):
                        st, r, var = out[kind]
                        cases = []
                        for i, pt in enumerate(pattern):
                            if pt is None:
                                cases.append(z3.Implies(idx == i, z3.BoolVal(st == "ok" and r is None)))      # left to the recursion
                            elif pt == kind:
                                cases.append(z3.Implies(idx == i, z3.BoolVal(st == "ok" and r is marks[i])))
                            else:
                                cases.append(z3.Implies(idx == i, z3.BoolVal(st == "raise")))                 # kind mismatch is an internal error
                        lowered = st == "ok" and isinstance(r, SObj) and r.cls is var.cls and all(
                            same(r.fields[f], var.fields[f]) for f in var.fields if f != "idx") and isinstance(r.fields.get("idx"), SInt)
                        low_idx = r.fields["idx"].t == idx - n if lowered else z3.BoolVal(False)
                        cases.append(z3.Implies(idx >= n, low_idx))
                        conj += cases
                    return z3.And(*conj)
                pn = "".join("-" if x is None else x for x in pattern) or "empty"
                chk.prove_paths(f"Instantiator[inst={pn},partial={partial}](var idx):idx<len=>the-argument(None-if-left-open);idx>=len=>same-variable-with-idx-len",
                                paths, post, func=f"{SU}:Instantiator._transform_BoundTypeVar",
                                replay=(lambda m: {"script": REPLAY_DEP, "input": {}}) if partial else None)
    # the type of an un-instantiated const variable is still instantiated (x: T  with T := nat)
    def t_dep(it):
        k = K(e, it)
        I = it.lookup_global(e.module(SU), "Instantiator")
        ins = it.call(I, [[k.call(k.TA, k.nat()), None]], {"allow_partial": True})
        x = k.call(k.BCV, k.tv(0), "x", 1)
        return it.call_method(x, "transform", [ins]), k.call(k.BCV, k.nat(), "x", 1)
    chk.prove_paths("Instantiator[partial](x: T, T:=nat, x open): the open const variable gets its TYPE instantiated (BoundConstVar(nat, x, 1))",
                    e.explore(t_dep), lambda p: z3.BoolVal(p.kind == "return" and same(p.value[0], p.value[1])), func=f"{SU}:Instantiator._transform_BoundConstVar",
                    replay=lambda m: {"script": REPLAY_DEP, "input": {}})
    chk.use_engine(e)


REPLAY_DEP = r'''
from guppylang_internals.tys.ty import NumericType, BoundTypeVar
from guppylang_internals.tys.arg import TypeArg
from guppylang_internals.tys.const import BoundConstVar
from guppylang_internals.tys.subst import Instantiator
nat = NumericType(NumericType.Kind.Nat)
x = BoundConstVar(BoundTypeVar("T", 0, True, True), "x", 1)
got = x.transform(Instantiator([TypeArg(nat), None], allow_partial=True))
want = BoundConstVar(nat, "x", 1)
print(json.dumps({"violates": got != want, "observed": str(got), "required": str(want)}))
'''


# ------------------------------------------------------------------------------ S3
def subst(k, o, sigma):
    """SPECIFICATION: textual substitution of bound variables in an interpreter type object."""
    if isinstance(o, list):
        return [subst(k, x, sigma) for x in o]
    if not isinstance(o, SObj):
        return o
    if o.cls is k.BTV:
        return sigma("T", o)
    if o.cls is k.BCV:
        return sigma("C", o)
    if o.cls is k.Fn:
        return k.call(k.Fn, [k.call(k.FI, subst(k, i.fields["ty"], sigma), i.fields["flags"]) for i in o.fields["inputs"]], subst(k, o.fields["output"], sigma),
                      o.fields["params"], subst(k, o.fields["comptime_args"], sigma), o.fields["unitary_flags"])
    if o.cls is k.Tup:
        return k.call(k.Tup, subst(k, o.fields["element_types"], sigma), o.fields["preserve"])
    if o.cls is k.TA:
        return k.call(k.TA, subst(k, o.fields["ty"], sigma))
    if o.cls is k.CA:
        return k.call(k.CA, subst(k, o.fields["const"], sigma))
    return o


def strip_preserve(k, o):
    """instantiate_partial marks instantiated tuples/None with preserve=True: compare modulo it."""
    if isinstance(o, list):
        return [strip_preserve(k, x) for x in o]
    if isinstance(o, SObj):
        c = SObj(o.cls, {f: (False if f == "preserve" else strip_preserve(k, v)) for f, v in o.fields.items() if not f.startswith("_")})
        return c
    return o


def s3(chk):
    e = mk_engine(chk)
    for q in ("FunctionType.instantiate_partial", "FunctionType.instantiate", "FunctionType.__init__"):
        e.func_info(TY, q)
    for q in ("TypeParam.with_idx", "TypeParam.to_bound", "TypeParam.instantiate_bounds", "ConstParam.with_idx", "ConstParam.to_bound", "ConstParam.instantiate_bounds"):
        e.func_info(PA, q)
    KINDS = ("T", "N", "D")          # type param, nat const param, const param whose type is the previous type param

    def sigs():
        for n in range(1, 4):
            for kinds in itertools.product(KINDS, repeat=n):
                if any(kd == "D" and (i == 0 or kinds[i - 1] != "T") for i, kd in enumerate(kinds)):
                    continue
                yield kinds

    def build(k, kinds):
        params, leaves = [], []
        for i, kd in enumerate(kinds):
            if kd == "T":
                params.append(k.call(k.TP, i, f"T{i}", True, True))
                leaves.append(k.tv(i))
            elif kd == "N":
                params.append(k.call(k.CP, i, f"n{i}", k.nat()))
                leaves.append(k.call(k.CA, k.cv(i)))
            else:
                params.append(k.call(k.CP, i, f"x{i}", k.tv(i - 1)))
                leaves.append(k.call(k.CA, k.cv(i, k.tv(i - 1), f"x{i}")))
        tys = [l for l in leaves if l.cls is k.BTV]
        cas = [l for l in leaves if l.cls is k.CA]
        f = k.call(k.Fn, [k.inp(t) for t in tys] + [k.inp(k.call(k.Tup, list(tys)))], k.call(k.Tup, list(reversed(tys))), params, cas)
        return f, params

    def closed_arg(k, kinds, i, tag):
        kd = kinds[i]
        if kd == "T":
            # the argument for a type parameter another (dependent) const parameter is typed by must be nat or not-nat
            return k.call(k.TA, k.nat() if tag % 2 == 0 else k.call(k.Tup, [k.int_(), k.flt()]))
        if kd == "N":
            return k.call(k.CA, k.call(k.CV, k.nat(), 10 + tag))
        return k.call(k.CA, k.call(k.CV, k.nat(), 20 + tag))

    def spec_ip(k, f, params, args):
        """expected result of f.instantiate_partial(args) by textual substitution"""
        rank, r = {}, 0
        for i, a in enumerate(args):
            if a is None:
                rank[i] = r
                r += 1

        def sigma(kind, v):
            i = v.fields["idx"]
            a = args[i]
            if a is not None:
                return a.fields["ty"] if kind == "T" else a.fields["const"]
            if kind == "T":
                return k.call(k.BTV, v.fields["display_name"], rank[i], v.fields["copyable"], v.fields["droppable"])
            return k.call(k.BCV, subst(k, v.fields["ty"], sigma), v.fields["display_name"], rank[i])
        rem = []
        for i, p in enumerate(params):
            if args[i] is None:
                if p.cls is k.TP:
                    rem.append(k.call(k.TP, rank[i], p.fields["name"], p.fields["must_be_copyable"], p.fields["must_be_droppable"]))
                else:
                    rem.append(SObj(p.cls, {**p.fields, "idx": rank[i], "ty": subst(k, p.fields["ty"], sigma)}))
        body = subst(k, f, sigma)
        return k.call(k.Fn, body.fields["inputs"], body.fields["output"], rem, body.fields["comptime_args"], body.fields["unitary_flags"])

    count = 0
    for kinds in sigs():
        n = len(kinds)
        for pat in itertools.product((True, False), repeat=n):          # True = instantiated in step 1
            def t(it, kinds=kinds, pat=pat):
                k = K(e, it)
                f, params = build(k, kinds)
                a = [closed_arg(k, kinds, i, i) if g else None for i, g in enumerate(pat)]
                r1 = it.call_method(f, "instantiate_partial", [a])
                want1 = spec_ip(k, f, params, a)
                # second step: instantiate everything that is left; compare with the one-step instantiation
                rest = [i for i, g in enumerate(pat) if not g]
                b = [closed_arg(k, kinds, i, i) for i in rest]
                r2 = it.call_method(r1, "instantiate_partial", [b]) if rest else r1
                full = [closed_arg(k, kinds, i, i) for i in range(n)]
                one = it.call_method(f, "instantiate_partial", [full])
                return (strip_preserve(k, r1), strip_preserve(k, want1), strip_preserve(k, r2), strip_preserve(k, one))
            paths = e.explore(t)
            pn = "".join(kinds) + ":" + "".join("1" if g else "-" for g in pat)
            chk.prove_paths(f"instantiate_partial[{pn}]==textual-substitution/\\remaining-params-densely-reindexed-with-bounds-substituted/\\two-steps==one-step",
                            paths, lambda p: z3.BoolVal(p.kind == "return" and same(p.value[0], p.value[1]) and same(p.value[2], p.value[3])),
                            func=f"{TY}:FunctionType.instantiate_partial",
                            replay=lambda m, kinds=kinds, pat=pat: {"script": REPLAY_IP, "input": {"kinds": list(kinds), "pattern": list(pat)}})
            count += 1
    chk.record("instantiate_partial:signatures-and-patterns-enumerated", count >= 100, str(count), kind="reachability")
    chk.use_engine(e)


# ------------------------------------------------------------------------------ S4
def s4(chk):
    e = mk_engine(chk)
    e.func_info(CC, "compile_variable_idx")
    idx = z3.Int("idx")
    for n in range(1, 6):
        flags = [z3.Bool(f"mono{i}") for i in range(n)]

        def t(it, n=n, flags=flags):
            f = it.lookup_global(e.module(CC), "compile_variable_idx")
            ARG = SObj(ClassVal("Arg", builtin=True), {})
            mono = tuple(ARG if it.ctx.branch(fl) else None for fl in flags)
            it.ctx.assume(z3.And(0 <= idx, idx < n))
            i = 0
            while not it.ctx.branch(idx == i):
                i += 1
            it.ctx.ghost["i"] = i
            return it.call(f, [i, mono], {})
        paths = e.explore(t, max_paths=4000)

        def post(p, n=n, flags=flags):
            i = p.ctx.ghost.get("i")
            open_before = z3.Sum([z3.IntVal(0)] + [z3.If(flags[j], 0, 1) for j in range(i)]) if i is not None else None
            if p.kind == "raise":
                return flags[i] if i is not None and p.raised(e, "AssertionError") else z3.BoolVal(False)     # only for a monomorphized index
            if p.kind != "return":
                return z3.BoolVal(False)
            r = p.value
            rt = r.t if isinstance(r, SInt) else z3.IntVal(r)
            return z3.And(z3.Not(flags[i]), rt == open_before)
        chk.prove_paths(f"compile_variable_idx[n={n}]==number-of-non-monomorphized-parameters-before-idx(=index given by instantiate_partial's dense re-indexing)",
                        paths, post, func=f"{CC}:compile_variable_idx")
    chk.must_fail("twin:mono-flags-free", [], z3.Bool("mono0"))
    chk.use_engine(e)


def s5(chk):
    """S5 — handle_implicit_self_arg (checker/func_checker.py): a method of a generic struct with an
    un-annotated `self` inherits the struct's k parameters IN FRONT of its own m parameters; the
    resulting parameter list must again be a de Bruijn telescope: inherited parameter i keeps
    index i, own parameter j moves to index k + j, all indices are distinct and dense, and `self`
    is the struct instantiated with its own parameters in order.  Every occurrence in the method's
    signature is resolved through this table, so a wrong index makes instantiation substitute the
    wrong argument.  All k, m in 0..3."""
    FC = "guppylang_internals.checker.func_checker"
    e = mk_engine(chk)
    e.func_info(FC, "handle_implicit_self_arg")
    m_ = e.module(FC)
    P = ClassVal("Parameter", builtin=True)

    def mk_param(name, idx, log):
        def with_idx(i):
            log.append(("with_idx", name, i))
            return mk_param(name, i, log)
        return SObj(P, {"name": name, "idx": idx, "with_idx": Builtin("with_idx", with_idx), "to_bound": Builtin("to_bound", lambda: ("BOUND", name, idx))})
    e.models["guppylang_internals.tys.parsing:check_function_arg"] = lambda it, a, k: ("FUNC-INPUT", a[0], a[1])
    for k in range(4):
        for m in range(4):
            def t(it, k=k, m=m):
                log = []
                inherited = [mk_param(f"T{i}", i, log) for i in range(k)]
                own = {f"U{j}": mk_param(f"U{j}", j, log) for j in range(m)}
                defn = SObj(ClassVal("TypeDef", builtin=True), {"params": inherited, "name": "Box"})
                defn.fields["check_instantiate"] = Builtin("check_instantiate", lambda args, loc=None: ("SELF-TY", list(args)))
                ctx = SObj(ClassVal("TypeParsingCtx", builtin=True), {"param_var_mapping": own, "self_ty": None})
                arg = SObj(ClassVal("arg", builtin=True), {"arg": "self", "annotation": None})
                r = it.call(it.lookup_global(m_, "handle_implicit_self_arg"), [arg, defn, ctx], {})
                return r, own, inherited

            def post(p, k=k, m=m):
                if p.kind != "return":
                    return z3.BoolVal(False)
                r, mapping, inherited = p.value
                idx = {n: v.fields["idx"] for n, v in mapping.items()}
                want = {**{f"T{i}": i for i in range(k)}, **{f"U{j}": k + j for j in range(m)}}
                ok = idx == want and sorted(idx.values()) == list(range(k + m)) and all(mapping[f"T{i}"] is inherited[i] for i in range(k))
                ok = ok and r[0] == "FUNC-INPUT" and r[1] == ("SELF-TY", [("BOUND", f"T{i}", i) for i in range(k)])
                return z3.BoolVal(ok)
            chk.prove_paths(f"handle_implicit_self_arg[struct-params={k},method-params={m}]:inherited-keep-0..k-1/\\own-move-to-k+j/\\indices-dense-and-distinct/\\self==struct[own-params-in-order]", e.explore(t), post,
                            func=f"{FC}:handle_implicit_self_arg", replay=(lambda m__: {"script": REPLAY_METHOD, "input": {}}) if (k, m) in ((2, 1), (1, 2)) else None)
    # own const parameters whose TYPE mentions an earlier own parameter (`def pick[U, x: U](self)`): the
    # reference inside the type moves with the parameter it refers to
    for k in (1, 2, 3):
        def t_dep(it, k=k):
            kk = K(e, it)
            inherited = [kk.call(kk.TP, i, f"S{i}", True, True) for i in range(k)]
            own = {"U": kk.call(kk.TP, 0, "U", True, True), "x": kk.call(kk.CP, 1, "x", kk.tv(0, "U")), "V": kk.call(kk.TP, 2, "V", True, True),
                   "y": kk.call(kk.CP, 3, "y", kk.call(kk.Tup, [kk.tv(2, "V"), kk.tv(0, "U")])), "n": kk.call(kk.CP, 4, "n", kk.nat())}
            defn = SObj(ClassVal("TypeDef", builtin=True), {"params": inherited, "name": "Box"})
            defn.fields["check_instantiate"] = Builtin("check_instantiate", lambda args, loc=None: ("SELF-TY", list(args)))
            ctx = SObj(ClassVal("TypeParsingCtx", builtin=True), {"param_var_mapping": own, "self_ty": None})
            arg = SObj(ClassVal("arg", builtin=True), {"arg": "self", "annotation": None})
            it.call(it.lookup_global(m_, "handle_implicit_self_arg"), [arg, defn, ctx], {})
            want = {"U": kk.call(kk.TP, k, "U", True, True), "x": kk.call(kk.CP, k + 1, "x", kk.tv(k, "U")), "V": kk.call(kk.TP, k + 2, "V", True, True),
                    "y": kk.call(kk.CP, k + 3, "y", kk.call(kk.Tup, [kk.tv(k + 2, "V"), kk.tv(k, "U")])), "n": kk.call(kk.CP, k + 4, "n", kk.nat())}
            return own, want
        chk.prove_paths(f"handle_implicit_self_arg[struct-params={k},method-params=U,x:U,V,y:(V,U),n:nat]:references-inside-the-types-of-own-const-parameters-move-with-the-parameters-they-refer-to", e.explore(t_dep),
                        lambda p: z3.BoolVal(p.kind == "return" and all(same(p.value[0][n_], p.value[1][n_]) for n_ in p.value[1])),
                        func=f"{FC}:handle_implicit_self_arg", replay=lambda m__: {"script": REPLAY_METHOD_DEP, "input": {}})
    chk.use_engine(e)


REPLAY_METHOD_DEP = r'''
import guppy_plainbool
import tempfile, importlib.util, os, sys, shutil
from guppylang_internals.error import GuppyError
src = """from guppylang import guppy
from guppylang.std.builtins import nat, result
@guppy.struct
class Box[S: (Copy, Drop)]:
    v: S
    @guppy
    def pick[U: (Copy, Drop), x: U](self) -> U:
        return x
@guppy
def free_pick[S: (Copy, Drop), U: (Copy, Drop), x: U](b: Box[S]) -> U:
    return x
@guppy
def main() -> None:
    result("method", Box(1.5).pick[float, nat, 7]())
    result("free", free_pick[float, nat, 7](Box(1.5)))
"""
d = tempfile.mkdtemp(dir=os.environ.get("TMPDIR", "/var/tmp")); fn = os.path.join(d, "replay_c13d.py"); open(fn, "w").write(src)
spec = importlib.util.spec_from_file_location("replay_c13d", fn); m = importlib.util.module_from_spec(spec); sys.modules["replay_c13d"] = m
spec.loader.exec_module(m)
try:
    got = [list(x) for x in list(m.main.emulator(n_qubits=1).run().results)[0].entries]
    out = {"violates": got != [["method", 7], ["free", 7]], "observed": got}
except GuppyError as ex:
    out = {"violates": True, "observed": "rejected: " + type(ex.error).__name__}
shutil.rmtree(d, ignore_errors=True)
out["required"] = "the method with its own dependent parameter behaves like the free function with the same parameters"
print(json.dumps(out))
'''


def s6(chk):
    """S6 — CompilerContext.set_monomorphized_args (compiler/core.py): the partial monomorphization of
    the function being compiled is a SCOPED setting: visible inside the `with`, and on exit the
    previous value is back — also when scopes nest (a library function loaded as a value while a
    generic function body is being compiled).  type_var_to_hugr / const_var_to_hugr /
    compile_variable_idx (S4) read it for every later occurrence of a parameter in that body."""
    CC = "guppylang_internals.compiler.core"
    e = mk_engine(chk)
    e.func_info(CC, "CompilerContext.set_monomorphized_args")
    m = e.module(CC)
    for outer in ("None", "M0"):
        for depth in (1, 2, 3):
            def t(it, outer=outer, depth=depth):
                CCx = it.lookup_global(m, "CompilerContext")
                ctx = SObj(CCx, {"current_mono_args": None if outer == "None" else "M0"})
                log = []
                src = ""
                for d in range(depth):
                    src += "    " * d + f"with ctx.set_monomorphized_args('M{d + 1}'):\n" + "    " * (d + 1) + "log.append(('in', ctx.current_mono_args))\n"
                for d in reversed(range(depth)):
                    src += "    " * d + "log.append(('after', ctx.current_mono_args))\n"
                it.exec_snippet(m, src, {"ctx": ctx, "log": log})
                return log

            def post(p, outer=outer, depth=depth):
                if p.kind != "return":
                    return z3.BoolVal(False)
                o = None if outer == "None" else "M0"
                want = [("in", f"M{d + 1}") for d in range(depth)] + [("after", f"M{d}" if d > 0 else o) for d in reversed(range(depth))]
                return z3.BoolVal(p.value == want)
            chk.prove_paths(f"set_monomorphized_args[previous={outer},nesting={depth}]:value-visible-inside/\\previous-value-restored-on-exit-of-every-level", e.explore(t), post,
                            func=f"{CC}:CompilerContext.set_monomorphized_args")
    chk.use_engine(e)


REPLAY_PMA = r'''
import tempfile, importlib.util, os, sys, shutil
src = """from guppylang import guppy
from guppylang.std.builtins import nat, result, comptime
@guppy
def inner[T: (Copy, Drop)](t: T, x: T @comptime) -> T:
    return x
@guppy
def outer[T: (Copy, Drop)](t: T, x: T @comptime) -> T:
    return inner(t, x)
@guppy
def main() -> None:
    result("n", int(outer(nat(1), 5)))
    result("i", outer(-1, 6))
"""
d = tempfile.mkdtemp(dir=os.environ.get("TMPDIR", "/var/tmp")); fn = os.path.join(d, "replay_c13p.py"); open(fn, "w").write(src)
spec = importlib.util.spec_from_file_location("replay_c13p", fn); m = importlib.util.module_from_spec(spec); sys.modules["replay_c13p"] = m
try:
    spec.loader.exec_module(m)
    try:
        got = [list(x) for x in list(m.main.emulator(n_qubits=1).run().results)[0].entries]
        out = {"violates": got != [["n", 5], ["i", 6]], "observed": got, "required": [["n", 5], ["i", 6]]}
    except AssertionError as ex:
        out = {"violates": True, "observed": "AssertionError while lowering the composed instantiation T := nat " + repr(ex)[:100], "required": "compiles and reports n=5, i=6 like the hand-specialised copies"}
except Exception as ex:
    out = {"violates": False, "error": repr(ex)[:300]}
shutil.rmtree(d, ignore_errors=True)
print(json.dumps(out))
'''


def s7(chk):
    """S7 — partially_monomorphize_args (compiler/core.py): which arguments of a call's instantiation
    become part of the callee's monomorphization key, decided on the instantiation NORMALISED by the
    caller's own monomorphization.  Specification (from the property: a composed instantiation behaves
    like the textual one): with inst[i] = args[i] after substituting the caller's fixed parameters,
      mono[i] = inst[i]  iff  parameter i is a const parameter whose type, instantiated with inst, is not
                              nat, or i is a variable occurring in the (non-nat) declared type of a const
                              parameter;          mono[i] = None otherwise,
      rem = [inst[i] | mono[i] is None] in order, and no mono[i] mentions a caller variable."""
    e = mk_engine(chk)
    e.func_info(CC, "partially_monomorphize_args")
    m = e.module(CC)

    # parameter lists of the callee / argument descriptions / the caller's monomorphization
    # type descriptors: "nat" | "int" | "bool" | ("T", j) (the callee's own parameter j, in declared types)
    # argument descriptors: ("ty", "nat"/"int") | ("val", "nat"/"int"/"bool", v) | ("oty", j) | ("oconst", j, tydesc-of-caller)
    def mk_ty(k, d, caller=False):
        if d == "nat":
            return k.nat()
        if d == "int":
            return k.int_()
        if d == "bool":
            return k.call(k.it.lookup_global(e.module("guppylang_internals.tys.builtin"), "bool_type"))
        return k.tv(d[1])

    def mk_arg(k, a):
        if a is None:
            return None
        if a[0] == "ty":
            return k.call(k.TA, mk_ty(k, a[1]))
        if a[0] == "val":
            return k.call(k.CA, k.call(k.CV, mk_ty(k, a[1]), a[2]))
        if a[0] == "oty":
            return k.call(k.TA, k.tv(a[1]))
        return k.call(k.CA, k.call(k.BCV, mk_ty(k, a[2]), f"x{a[1]}", a[1]))

    def resolve(a, outer):
        """reference normalisation of an argument description by the caller's monomorphization"""
        if outer is None:
            return a
        if a[0] == "oty":
            return outer[a[1]] if a[1] < len(outer) and outer[a[1]] is not None else a
        if a[0] == "oconst":
            if a[1] < len(outer) and outer[a[1]] is not None:
                return outer[a[1]]
            t = a[2]
            if isinstance(t, tuple) and t[1] < len(outer) and outer[t[1]] is not None:
                t = outer[t[1]][1]
            return ("oconst", a[1], t)
        return a

    def ty_of(a):
        return a[1] if a[0] in ("ty", "val") else (a[2] if a[0] == "oconst" else ("T", a[1]))

    def reference(params, args, outer):
        inst = [resolve(a, outer) for a in args]
        mono = [None] * len(inst)
        for i, pd in enumerate(params):
            if pd[0] != "const":
                continue
            decl = pd[1]
            if decl != "nat" and isinstance(decl, tuple):
                mono[decl[1]] = inst[decl[1]]
            ity = ty_of(inst[decl[1]]) if isinstance(decl, tuple) else decl
            if ity != "nat":
                mono[i] = inst[i]
        return mono, [a for i, a in enumerate(inst) if mono[i] is None]

    TX = [("type",), ("const", ("T", 0))]
    CASES = [
        ("[T,x:T](nat,5)/plain-caller", TX, [("ty", "nat"), ("val", "nat", 5)], None),
        ("[T,x:T](int,5)/plain-caller", TX, [("ty", "int"), ("val", "int", 5)], None),
        ("[T,x:T](T',x')/caller[T':=nat,x'-open]", TX, [("oty", 0), ("oconst", 1, ("T", 0))], [("ty", "nat"), None]),
        ("[T,x:T](T',x')/caller[T':=int,x':=5]", TX, [("oty", 0), ("oconst", 1, ("T", 0))], [("ty", "int"), ("val", "int", 5)]),
        ("[T,x:T](nat,x')/caller[x'-open-nat]", TX, [("ty", "nat"), ("oconst", 0, "nat")], [None]),
        ("[n:nat](n')/caller[n'-open]", [("const", "nat")], [("oconst", 0, "nat")], [None]),
        ("[n:nat](3)/plain-caller", [("const", "nat")], [("val", "nat", 3)], None),
        ("[b:bool](True)/plain-caller", [("const", "bool")], [("val", "bool", True)], None),
        ("[b:bool](b')/caller[b':=True]", [("const", "bool")], [("oconst", 0, "bool")], [("val", "bool", True)]),
        ("[T](T')/caller[T'-open]", [("type",)], [("oty", 0)], [None]),
        ("[T](int)/plain-caller", [("type",)], [("ty", "int")], None),
        ("[U,T,x:T](U',T',x')/caller[U'-open,T':=nat,x'-open]", [("type",), ("type",), ("const", ("T", 1))],
         [("oty", 0), ("oty", 1), ("oconst", 2, ("T", 1))], [None, ("ty", "nat"), None]),
        ("[U,T,x:T](U',T',x')/caller[U'-open,T':=int,x':=7]", [("type",), ("type",), ("const", ("T", 1))],
         [("oty", 0), ("oty", 1), ("oconst", 2, ("T", 1))], [None, ("ty", "int"), ("val", "int", 7)]),
    ]
    for name, params, args, outer in CASES:
        def t(it, params=params, args=args, outer=outer):
            k = K(e, it)
            ps = []
            for i, pd in enumerate(params):
                if pd[0] == "type":
                    ps.append(k.call(k.TP, i, f"P{i}", True, True))
                else:
                    ps.append(k.call(k.CP, i, f"p{i}", mk_ty(k, pd[1])))
            av = [mk_arg(k, a) for a in args]
            before = list(av)
            ctx = SObj(it.lookup_global(m, "CompilerContext"), {"current_mono_args": None if outer is None else tuple(mk_arg(k, a) for a in outer)})
            got = it.call(it.lookup_global(m, "partially_monomorphize_args"), [ps, av, ctx], {})
            wm, wr = reference(params, args, outer)
            return got, tuple(mk_arg(k, a) for a in wm), [mk_arg(k, a) for a in wr], av, before

        def post(p):
            if p.kind != "return":
                return z3.BoolVal(False)
            (gm, gr), wm, wr, av, before = p.value
            untouched = len(av) == len(before) and all(x is y for x, y in zip(av, before))
            return z3.BoolVal(same(list(gm), list(wm)) and same(list(gr), list(wr)) and untouched)
        chk.prove_paths(f"partially_monomorphize_args{name}:mono==args-forced-by-the-NORMALISED-instantiation/\\rem==the-rest-normalised-in-order/\\caller's-list-untouched",
                        e.explore(t), post, func=f"{CC}:partially_monomorphize_args", replay=lambda mdl: {"script": REPLAY_PMA, "input": {}})
    chk.use_engine(e)


REPLAY_METHOD = r'''
import tempfile, importlib.util, os, sys, shutil
src = """from guppylang import guppy
from guppylang.std.builtins import nat, result, array
@guppy.struct
class Box[T, n: nat]:
    v: T
    @guppy
    def pair[U](self, other: U) -> tuple[T, U]:
        return self.v, other
@guppy
def main() -> None:
    b: Box[int, 3] = Box(3)
    x, y = b.pair(2.5)
    result("v", x)
    result("o", y)
"""
d = tempfile.mkdtemp(dir=os.environ.get("TMPDIR", "/var/tmp")); fn = os.path.join(d, "replay_c13m.py"); open(fn, "w").write(src)
spec = importlib.util.spec_from_file_location("replay_c13m", fn); m = importlib.util.module_from_spec(spec); sys.modules["replay_c13m"] = m
try:
    spec.loader.exec_module(m)
    try:
        got = [list(x) for x in list(m.main.emulator(n_qubits=1).run().results)[0].entries]
        out = {"violates": got != [["v", 3], ["o", 2.5]], "observed": got, "required": [["v", 3], ["o", 2.5]]}
    except AssertionError as ex:
        out = {"violates": True, "observed": "AssertionError during instantiation " + repr(ex)[:100], "required": "compiles like the hand-specialised copy"}
except Exception as ex:
    out = {"violates": False, "error": repr(ex)[:300]}
shutil.rmtree(d, ignore_errors=True)
print(json.dumps(out))
'''
