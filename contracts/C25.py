"""C25 — Modifier blocks lower to the matching modifier operations.

Functions under contract:
  nodes.ModifiedBlock.push_modifier / is_dagger / is_control / is_power / flags,
  checker/modifier_checker.py: _set_inout_if_non_copyable, check_modified_block_signature,
  non_copyable_front_others_back  (the "captured qubits are threaded through and handed back"
  half: the checker and the compiler must agree on WHICH captured values are lent);
  compiler/modifier_compiler.py: compile_modified_block (bounded layer on the compiled HUGR).

Proved (pyvc, symbolic copyable/droppable flags):
  * a captured variable is lent (Inout) iff its type is not copyable — for linear AND affine
    types — and the block's function type marks exactly the same inputs Inout; unitary flags of
    the function type are the block's flags;
  * non_copyable_front_others_back is a stable partition (lent values first);
  * push_modifier files every modifier under its kind in source order; flags() = Dagger iff an
    odd number of daggers, Control / Power iff any.
Bounded (native, contracts/C25_oracle.py): all modifier lists of length <= 3 (181) compiled with
the real pipeline; modifier ops along LoadFunc -> call, control arity, power operand, and the
number of values the call consumes / hands back.
Recorded deviation (known finding): modifiers are kept per kind, so ops are emitted grouped
Dagger, Power, Control and an even number of daggers cancels.
"""
import itertools
import json
import z3

from pyvc import SObj, ClassVal, Builtin, SBool, FlagVal
from .common import mk_engine, zbool
from .C25_oracle import ORACLE, DRIVER, REPLAY_ONE

TITLE = "modifier blocks: lending of captured values agrees between checker and function type; per-kind bookkeeping; compiled modifier chain (bounded)"
MC = "guppylang_internals.checker.modifier_checker"
ND = "guppylang_internals.nodes"
TY = "guppylang_internals.tys.ty"
NCH = 8


def run(chk):
    chk.section("lending", lambda: lending(chk))
    chk.section("bookkeeping", lambda: bookkeeping(chk))
    for i in range(NCH):
        chk.section(f"bounded-{i}", lambda i=i: bounded(chk, i))
    chk.expected_min_obligations = 20
    chk.assumptions += ["semantics of the tket modifier extension ops (DaggerModifier, ControlModifier, PowerModifier) and of CallIndirect (HUGR / tket2)",
                        "compile_modified_block itself is decided by the bounded layer (all modifier lists of length <= 3 over six modifier shapes, one body), not proved"]
    chk.not_covered += ["bodies other than a single gate on a captured qubit; nested modifier blocks; captured classical values"]


def lending(chk):
    e = mk_engine(chk)
    for q in ("_set_inout_if_non_copyable", "check_modified_block_signature", "non_copyable_front_others_back"):
        e.func_info(MC, q)
    c, d = z3.Bools("copyable droppable")

    def mkty(it, cc, dd):
        # a type whose classification is symbolic: covers copyable, affine, relevant and linear types
        BTV = it.lookup_global(e.module(TY), "BoundTypeVar")
        return it.call(BTV, ["T", 0, SBool(cc), SBool(dd)], {})

    def has_inout(it, flags):
        IF = it.lookup_global(e.module(TY), "InputFlags")
        return it.contains(flags, it.getattr(IF, "Inout"))

    def t_set(it):
        V = it.lookup_global(e.module("guppylang_internals.checker.core"), "Variable")
        IF = it.lookup_global(e.module(TY), "InputFlags")
        v = it.call(V, ["x", mkty(it, c, d), None], {"flags": it.getattr(IF, "NoFlags")})
        f = it.lookup_global(e.module(MC), "_set_inout_if_non_copyable")
        r = it.call(f, [v], {})
        return has_inout(it, r.fields["flags"]), r.fields["name"], r.fields["ty"] is v.fields["ty"]
    chk.prove_paths("_set_inout_if_non_copyable:lent(Inout)<=>not-copyable(linear-and-affine-alike)/\\name-and-type-kept", e.explore(t_set),
                    lambda p: z3.BoolVal(False) if p.kind != "return" else z3.And(zb(p.value[0]) == z3.Not(c), z3.BoolVal(p.value[1] == "x" and p.value[2])),
                    func=f"{MC}:_set_inout_if_non_copyable", replay=lambda m: {"script": REPLAY_AFFINE, "input": {}})
    for n in range(0, 4):
        cs = [z3.Bool(f"c{i}") for i in range(n)]

        def t_sig(it, n=n, cs=cs):
            f = it.lookup_global(e.module(MC), "check_modified_block_signature")
            UF = it.lookup_global(e.module(TY), "UnitaryFlags")
            mb = SObj(ClassVal("MB", builtin=True), {"flags": Builtin("flags", lambda: it.getattr(UF, "Dagger"))})
            tys = [mkty(it, cs[i], z3.Bool(f"d{i}")) for i in range(n)]
            ft = it.call(f, [mb, tys], {})
            return [has_inout(it, i.fields["flags"]) for i in ft.fields["inputs"]], [i.fields["ty"] for i in ft.fields["inputs"]], tys, ft.fields["unitary_flags"], it.getattr(UF, "Dagger")
        chk.prove_paths(f"check_modified_block_signature[{n}]:input-i-lent<=>type-i-not-copyable/\\types-in-order/\\unitary-flags==block.flags()", e.explore(t_sig),
                        lambda p, cs=cs: z3.BoolVal(False) if p.kind != "return" else z3.And(
                            *[zb(h) == z3.Not(ci) for h, ci in zip(p.value[0], cs)], z3.BoolVal(len(p.value[0]) == len(cs) and all(a is b for a, b in zip(p.value[1], p.value[2]))),
                            z3.BoolVal(isinstance(p.value[3], FlagVal) and p.value[3].value == p.value[4].value)),
                        func=f"{MC}:check_modified_block_signature")

        def t_part(it, n=n, cs=cs):
            f = it.lookup_global(e.module(MC), "non_copyable_front_others_back")
            vs = [SObj(ClassVal("Var", builtin=True), {"i": i, "ty": mkty(it, cs[i], z3.BoolVal(True))}) for i in range(n)]
            return [v.fields["i"] for v in it.call(f, [vs], {})]
        paths = e.explore(t_part)

        def post_part(p, cs=cs):
            if p.kind != "return":
                return z3.BoolVal(False)
            out = p.value
            n_ = len(cs)
            if sorted(out) != list(range(n_)):
                return z3.BoolVal(False)
            conj = []
            for a in range(n_):
                for b in range(a + 1, n_):
                    x, y = out[a], out[b]
                    # x placed before y: never a copyable before a non-copyable; equal classes keep source order
                    conj.append(z3.Not(z3.And(cs[x], z3.Not(cs[y]))))
                    if x > y:
                        conj.append(cs[x] != cs[y])
            return z3.And(*conj) if conj else z3.BoolVal(True)
        chk.prove_paths(f"non_copyable_front_others_back[{n}]:permutation/\\lent-values-first/\\stable", paths, post_part, func=f"{MC}:non_copyable_front_others_back")
    chk.must_fail("twin:classification-free", [], c)
    chk.use_engine(e)


def zb(v):
    return zbool(v) if not isinstance(v, bool) else z3.BoolVal(v)


REPLAY_AFFINE = r'''
from guppylang_internals.checker.modifier_checker import _set_inout_if_non_copyable, check_modified_block_signature
from guppylang_internals.checker.core import Variable
from guppylang_internals.tys.ty import InputFlags, BoundTypeVar
bad = []
for cp, dr in ((False, True), (False, False), (True, True)):
    ty = BoundTypeVar("T", 0, cp, dr)
    v = _set_inout_if_non_copyable(Variable("x", ty, None))
    lent = InputFlags.Inout in v.flags
    if lent != (not cp): bad.append(f"copyable={cp} droppable={dr}: lent={lent}")
print(json.dumps({"violates": bool(bad), "detail": bad}))
'''


def bookkeeping(chk):
    e = mk_engine(chk)
    for q in ("ModifiedBlock.push_modifier", "ModifiedBlock.is_dagger", "ModifiedBlock.is_control", "ModifiedBlock.is_power", "ModifiedBlock.flags"):
        e.func_info(ND, q)
    n_ = 0
    for n in range(0, 4):
        for kinds in itertools.product(("Dagger", "Control", "Power"), repeat=n):
            def t(it, kinds=kinds):
                m = e.module(ND)
                MB = it.lookup_global(m, "ModifiedBlock")
                UF = it.lookup_global(e.module(TY), "UnitaryFlags")
                mb = SObj(MB, {"dagger": [], "control": [], "power": []})
                mods = []
                for i, k in enumerate(kinds):
                    cls = it.lookup_global(m, k)
                    o = SObj(cls, {"i": i})
                    mods.append(o)
                    it.call_method(mb, "push_modifier", [o])
                fl = it.call_method(mb, "flags", [])
                return mb, mods, fl, {k: it.getattr(UF, k).value for k in ("Dagger", "Control", "Power")}
            paths = e.explore(t)

            def post(p, kinds=kinds):
                if p.kind != "return":
                    return z3.BoolVal(False)
                mb, mods, fl, bits = p.value
                ok = True
                for k, fld in (("Dagger", "dagger"), ("Control", "control"), ("Power", "power")):
                    ok = ok and mb.fields[fld] == [m_ for m_, kk in zip(mods, kinds) if kk == k]
                want = (bits["Dagger"] if kinds.count("Dagger") % 2 == 1 else 0) | (bits["Control"] if "Control" in kinds else 0) | (bits["Power"] if "Power" in kinds else 0)
                return z3.BoolVal(bool(ok and isinstance(fl, FlagVal) and fl.value == want))
            chk.prove_paths(f"ModifiedBlock.push_modifier/flags[{','.join(kinds) or 'none'}]:each-modifier-filed-under-its-kind-in-source-order/\\flags==Dagger-iff-odd,Control/Power-iff-any",
                            paths, post, func=f"{ND}:ModifiedBlock.push_modifier")
            n_ += 1
    chk.record("push_modifier:all-kind-sequences-up-to-3-explored", n_ >= 40, str(n_), kind="reachability")
    chk.use_engine(e)


def bounded(chk, i):
    from pyvc.report import run_replay
    res = run_replay(ORACLE + DRIVER, {"max_len": 3, "chunk": i, "nchunks": NCH}, chk.repo, timeout=6000)
    if "evaluations" not in res:
        chk.undecided(f"bounded[{i}/{NCH}]:modifier-lists", "oracle run failed: " + json.dumps(res)[:500])
        return
    w = res.get("witness")
    o = chk.bounded_result(f"bounded[{i}/{NCH}]:compiled-modifier-chain==source(one op per modifier in source order, control arity, power operand, controls and captured qubit handed back; slice {i} of {NCH}, {res['total']} lists)",
                           not res.get("violates"), res["evaluations"], detail=res.get("detail") or f"{res['evaluations']} modifier lists compiled and compared",
                           witness=w and {"modifiers": w["modifiers"], "detail": w["detail"]}, func="guppylang_internals.compiler.modifier_compiler:compile_modified_block")
    if w:
        o.replay.update({"script": ORACLE + REPLAY_ONE, "input": {"mods": w["mods"]}})
    if res.get("known"):
        k = chk.bounded_result(f"known-deviation[per-kind-grouping]:with {', '.join(res['known']['modifiers'])}", False, 1, detail=res["known"]["detail"], witness=res["known"],
                               func="guppylang_internals.compiler.modifier_compiler:compile_modified_block")
        k.replay.update({"script": ORACLE + REPLAY_ONE, "input": {"mods": ["C1", "D"]}})
