"""C07 — Borrowed arguments reflect the callee's in-place updates.

Functions under contract:
  compiler/expr_compiler.py  ExprCompiler._update_inout_ports
  tys/ty.py                  FunctionType._to_hugr_function_type (borrowed inputs appended to the outputs)
The two agree on ONE convention: after the regular results, a call hands back the borrowed
arguments in parameter order.
  A  _update_inout_ports (pyvc, real code, all argument lists of length <= 3 over
     {not borrowed, borrowed place, borrowed place under a subscript, borrowed temporary}):
     the k-th returned wire is stored into the place of the k-th borrowed argument; a borrowed
     temporary consumes its wire; every wire is consumed (else assertion); a place under a
     subscript additionally gets its __setitem__ write-back, fed with the just-updated value,
     after the place was updated; arguments that are not borrowed are untouched.
  B  _to_hugr_function_type: outputs == row(output) ++ [types of Inout inputs, in input order];
     inputs == non-comptime inputs in order (arities <= 3, all flag vectors).
  C  BOUNDED end to end (contracts/C07_oracle.py): emulator result stream == CPython reference
     semantics for sequences of lending calls (quick 132 / thorough ~900 scenarios).
"""
import itertools
import json
import z3

from pyvc import SObj, ClassVal, Builtin, PyRaise
from .common import mk_engine
from .C07_oracle import ORACLE, DRIVER, REPLAY_ONE

TITLE = "borrowed arguments: returned wires are matched to borrowed parameters in order on both sides of a call; write-back through subscripts; emulator == Python reference (bounded)"
EC = "guppylang_internals.compiler.expr_compiler"
TY = "guppylang_internals.tys.ty"
NCH = 16


def run(chk):
    chk.section("update_inout_ports", lambda: ports(chk))
    chk.section("function-type", lambda: fntype(chk))
    chk.section("dfcontainer", lambda: dfcontainer(chk))
    chk.section("comptime-callers", lambda: comptime_callers(chk))
    chk.section("borrow-shadowing", lambda: _shadowing(chk))
    for i in range(NCH):
        chk.section(f"bounded-{i}", lambda i=i: bounded(chk, i))
    chk.expected_min_obligations = 60
    chk.assumptions += ["the callee's definition returns its borrowed parameters after the regular results in parameter order (compile_cfg / function compilation; exercised by the bounded layer, not proved here)",
                        "argument lists of length <= 3 are enumerated"]
    chk.not_covered += ["qubit-typed borrowed values on the emulator (bounded layer uses int arrays, structs, nested arrays, tuples)", "comptime callers beyond update_packed_value (trace_call's builder calls)"]


def _shadowing(chk):
    """a callee that re-binds a borrowed parameter would hand back the new binding and the caller would lose
    the in-place updates: every form of re-binding is rejected (obligations of C06 L7, under this property)"""
    from .C06 import borrow_shadowing
    borrow_shadowing(chk, tag="callee-may-not-rebind:")


def comptime_callers(chk):
    """update_packed_value (tracing/unpacking.py) is the comptime counterpart of _update_inout_ports: after
    a call that borrowed a comptime value, every component of the caller's Python-side object carries the
    wire the callee handed back — copyable components too (a comptime callee may have assigned a
    classical field of a borrowed struct).  Obligations shared with C21 / C22."""
    from .C22 import upv_obligations
    upv_obligations(chk, tag="comptime-caller:", consts=True)


KINDS = ("plain", "place", "subscript", "subscript-copyable", "temp")


def mk_dfg(setitem, getitem):
    """stub DFContainer: item stores / loads are forwarded to the recorder"""
    cls = ClassVal("DFContainerStub", builtin=True)
    cls.attrs["__setitem__"] = Builtin("__setitem__", lambda self, k, v: setitem(k, v))
    cls.attrs["__getitem__"] = Builtin("__getitem__", lambda self, k: getitem(k))
    return SObj(cls, {})


def ports(chk, tag="", replay=None):
    """`subscript` / `subscript-copyable`: a borrowed place under a subscript whose element type is not /
    is copyable — a classical element lent to a function generic in a non-copyable type variable
    (mem_swap(xs[0], xs[3])) is written back like a qubit is."""
    e = mk_engine(chk)
    e.func_info(EC, "ExprCompiler._update_inout_ports")
    m = e.module(EC)
    n_obl = 0
    for n in range(0, 4):
        for kinds in itertools.product(KINDS, repeat=n):
            def t(it, kinds=kinds):
                EC_cls = it.lookup_global(m, "ExprCompiler")
                PN = it.lookup_global(m, "PlaceNode")
                IF = it.lookup_global(e.module(TY), "InputFlags")
                log = []
                store = {}

                class DFG(dict):
                    pass
                dfg_obj = SObj(ClassVal("DFContainer", builtin=True), {})
                dfg_store = {}

                def setitem(place, wire):
                    log.append(("set", place, wire))
                    dfg_store[id(place)] = wire
                    # updating a place under a subscript also updates what dfg[subscript] reads
                    sub = getattr(place, "_sub", None)
                    if sub is not None:
                        dfg_store[id(sub)] = ("element-of", wire)

                def getitem(place):
                    return dfg_store.get(id(place), ("old", place))
                dfg_obj.fields["__setitem__"] = None
                args, inputs, borrowed = [], [], []
                for i, k in enumerate(kinds):
                    flags = it.getattr(IF, "NoFlags") if k == "plain" else it.getattr(IF, "Inout")
                    inputs.append(SObj(ClassVal("FuncInput", builtin=True), {"flags": flags, "ty": "T"}))
                    if k == "temp":
                        args.append(SObj(ClassVal("TempExpr", builtin=True), {"i": i}))
                    else:
                        place = SObj(ClassVal("Place", builtin=True), {"i": i})
                        if k.startswith("subscript"):
                            sub = SObj(ClassVal("SubscriptPlace", builtin=True), {"i": i, "ty": SObj(ClassVal("Ty", builtin=True), {"copyable": k == "subscript-copyable", "droppable": k == "subscript-copyable"})})
                            sub.fields["setitem_call"] = SObj(ClassVal("SetitemCall", builtin=True), {"value_var": SObj(ClassVal("Var", builtin=True), {"i": i}), "call": ("SETITEM-CALL", i)})
                            place._sub = sub
                            place.fields["sub"] = sub
                        args.append(SObj(PN, {"place": place}))
                    if k != "plain":
                        borrowed.append(i)
                wires = [("ret", j) for j in range(len(borrowed))]
                e.models["guppylang_internals.checker.core:contains_subscript"] = lambda it2, a, k2: a[0].fields.get("sub")
                fty = SObj(ClassVal("FT", builtin=True), {"inputs": inputs})
                self_ = SObj(EC_cls, {"visit": Builtin("visit", lambda x: log.append(("visit", x)) or "W"), "ctx": None})

                self_.fields["dfg"] = mk_dfg(setitem, getitem)
                it.call_method(self_, "_update_inout_ports", [args, list(wires), fty])      # pyvc models an iterator as the list of remaining items
                return log, args, borrowed, wires
            # dfg[...] item access on the stub container
            def t_wrapped(it, t=t):
                return t(it)
            e.item_hooks = True
            paths = e.explore(t_wrapped)

            def post(p, kinds=kinds):
                if p.kind != "return":
                    return z3.BoolVal(False)
                log, args, borrowed, wires = p.value
                sets = [x for x in log if x[0] == "set"]
                want = []
                k = 0
                for i, kd in enumerate(kinds):
                    if kd == "plain":
                        continue
                    if kd in ("place", "subscript", "subscript-copyable"):
                        want.append((i, wires[k]))
                    k += 1
                # places updated: exactly the borrowed places, each with the wire of its rank, in order
                got = [(x[1].fields["i"], x[2]) for x in sets if x[1].cls.name == "Place"]
                ok = got == want
                # subscripts: value_var gets the updated element and the setitem call is compiled afterwards
                for i, kd in enumerate(kinds):
                    if kd.startswith("subscript"):
                        idx_set = [j for j, x in enumerate(log) if x[0] == "set" and x[1].cls.name == "Place" and x[1].fields["i"] == i]
                        idx_var = [j for j, x in enumerate(log) if x[0] == "set" and x[1].cls.name == "Var" and x[1].fields["i"] == i]
                        idx_call = [j for j, x in enumerate(log) if x[0] == "visit" and x[1] == ("SETITEM-CALL", i)]
                        ok = ok and len(idx_set) == len(idx_var) == len(idx_call) == 1 and idx_set[0] < idx_var[0] < idx_call[0]
                        if ok:
                            rank = [j for j in range(len(kinds)) if kinds[j] != "plain"].index(i)
                            ok = log[idx_var[0]][2] == ("element-of", wires[rank])
                ok = ok and len([x for x in log if x[0] == "visit"]) == sum(1 for kd in kinds if kd.startswith("subscript"))
                return z3.BoolVal(bool(ok))
            chk.prove_paths(f"{tag}_update_inout_ports[{','.join(kinds) or 'no-args'}]:k-th-returned-wire->k-th-borrowed-argument/\\temporaries-consume-theirs/\\all-wires-consumed/\\subscript-write-back-after-update",
                            paths, post, func=f"{EC}:ExprCompiler._update_inout_ports",
                            replay=replay or (lambda m_: {"script": ORACLE + REPLAY_ONE, "input": {"ops": ["three(array(0, 0, 0), a, b)"]}}))
            n_obl += 1
    # too few / too many returned wires are detected
    def t_extra(it):
        EC_cls = it.lookup_global(m, "ExprCompiler")
        self_ = SObj(EC_cls, {"visit": Builtin("visit", lambda x: "W"), "ctx": None, "dfg": mk_dfg(lambda p, w: None, lambda p: None)})
        it.call_method(self_, "_update_inout_ports", [[], [("ret", 0)], SObj(ClassVal("FT", builtin=True), {"inputs": []})])
    chk.prove_paths(f"{tag}_update_inout_ports:a-returned-wire-nobody-claims-is-an-assertion-failure", e.explore(t_extra),
                    lambda p: z3.BoolVal(p.kind == "raise" and p.raised(e, "AssertionError")), func=f"{EC}:ExprCompiler._update_inout_ports")
    chk.record(f"{tag}_update_inout_ports:all-argument-shapes-explored", n_obl >= 150, str(n_obl), kind="reachability")
    chk.use_engine(e)


def fntype(chk):
    e = mk_engine(chk)
    e.func_info(TY, "FunctionType._to_hugr_function_type")
    m = e.module(TY)
    FLAGS = ("NoFlags", "Inout", "Owned", "Comptime")
    cnt = 0
    for n in range(0, 4):
        for fl in itertools.product(FLAGS, repeat=n):
            def t(it, fl=fl):
                FT = it.lookup_global(m, "FunctionType")
                IF = it.lookup_global(m, "InputFlags")
                ins = []
                for i, f in enumerate(fl):
                    ty = SObj(ClassVal("Ty", builtin=True), {"i": i, "to_hugr": Builtin("to_hugr", lambda ctx, i=i: ("H", i))})
                    ins.append(SObj(ClassVal("FuncInput", builtin=True), {"ty": ty, "flags": it.getattr(IF, f)}))
                out = SObj(ClassVal("Ty", builtin=True), {"i": "out", "to_hugr": Builtin("to_hugr", lambda ctx: ("H", "out"))})
                e.models[f"{TY}:type_to_row"] = lambda it2, a, k: [a[0]]
                e.ext_models["hugr.tys.FunctionType"] = lambda it2, a, k: ("HFT", list(k.get("input", a[0] if a else [])), list(k.get("output", a[1] if len(a) > 1 else [])))
                self_ = SObj(FT, {"inputs": ins, "output": out, "params": []})
                return it.call_method(self_, "_to_hugr_function_type", ["CTX"])
            chk.prove_paths(f"FunctionType._to_hugr_function_type[{','.join(fl) or 'no-inputs'}]:outputs==results++borrowed-inputs-in-order/\\inputs==non-comptime-inputs-in-order", e.explore(t),
                            lambda p, fl=fl: z3.BoolVal(p.kind == "return" and p.value[0] == "HFT" and p.value[1] == [("H", i) for i, f in enumerate(fl) if f != "Comptime"]
                                                        and p.value[2] == [("H", "out")] + [("H", i) for i, f in enumerate(fl) if f == "Inout"]),
                            func=f"{TY}:FunctionType._to_hugr_function_type")
            cnt += 1
    chk.record("_to_hugr_function_type:all-flag-vectors-explored", cnt >= 80, str(cnt), kind="reachability")
    chk.use_engine(e)


def bounded(chk, i):
    from pyvc.report import run_replay
    res = run_replay(ORACLE + DRIVER, {"tier": chk.tier, "chunk": i, "nchunks": NCH}, chk.repo, timeout=6000)
    if "evaluations" not in res:
        chk.undecided(f"bounded[{i}/{NCH}]:scenarios", "oracle run failed: " + json.dumps(res)[:600])
        return
    w = res.get("witness")
    o = chk.bounded_result(f"bounded[{i}/{NCH}]:emulator-result-stream==Python-reference-semantics(slice {i} of {NCH}; {res['total']} lending scenarios)", not res.get("violates"), res["evaluations"],
                           detail=res.get("detail") or f"{res['evaluations']} scenarios run on the emulator and under CPython, {res['n_rejected']} rejected by the checker", witness=w,
                           func=f"{EC}:ExprCompiler._update_inout_ports")
    if w:
        o.replay.update({"script": ORACLE + REPLAY_ONE, "input": {"ops": w["ops"]}})


def dfcontainer(chk):
    """DFContainer.__getitem__ / __setitem__ (compiler/core.py), the wire table that receives the
    values a call hands back, as an abstract map  leaf place -> current value : for every sequence of
    at most 4 operations {assign the whole struct/tuple, assign one leaf, read the whole, read one
    leaf} on a pair-shaped place (tuple and struct; copyable and linear leaves) and on a nested one,
    every read returns a wire whose VALUE — computed from the MakeTuple / UnpackTuple nodes the
    container adds — is the tuple of the current leaf values; in particular a packed wire cached by
    an earlier read is never returned after the place (or a leaf) was assigned again."""
    import itertools
    CC = "guppylang_internals.compiler.core"
    CORE = "guppylang_internals.checker.core"
    TYM = "guppylang_internals.tys.ty"
    e = mk_engine(chk)
    for q in ("DFContainer.__getitem__", "DFContainer.__setitem__"):
        e.func_info(CC, q)

    def norm(v):
        """values: ("w", k) | ("tuple", v0, v1, ..) | ("proj", i, v); beta and eta reduced"""
        if v[0] == "proj":
            b = norm(v[2])
            return b[1 + v[1]] if b[0] == "tuple" else ("proj", v[1], b)
        if v[0] == "tuple":
            kids = [norm(x) for x in v[1:]]
            if kids and all(k[0] == "proj" and k[1] == i and k[2] == kids[0][2] for i, k in enumerate(kids)):
                return kids[0][2]          # (proj_0 x, .., proj_n x) = x
            return ("tuple", *kids)
        return v

    shapes = {"tuple2": ("T", ["L", "L"]), "struct2": ("S", ["L", "L"]), "nested": ("T", [("S", ["L", "L"]), "L"])}

    def leaves_of(sh, path=()):
        if sh == "L":
            return [path]
        out = []
        for i, c in enumerate(sh[1]):
            out += leaves_of(c, path + (i,))
        return out
    n_ok = 0
    for sname, sh in shapes.items():
        lv = leaves_of(sh)
        ops_all = [("set-whole",), ("get-whole",)] + [("set-leaf", p) for p in lv] + [("get-leaf", p) for p in lv]
        seqs = [s for k in (1, 2, 3, 4) for s in itertools.product(ops_all, repeat=k)]
        if chk.tier != "thorough":
            seqs = [s for i, s in enumerate(seqs) if len(s) < 3 or i % (7 if sname != "nested" else 61) == 0 or (s[0] == ("get-whole",) and s[-1] == ("get-whole",) and sname != "nested")]
        # one symbolic run per block of sequences (a run has a step budget; the thorough tier has 4680 sequences for `nested`)
        all_seqs = seqs
        blocks = [all_seqs[k: k + 400] for k in range(0, len(all_seqs), 400)]
        for linear, (bi, seqs) in itertools.product((False, True), enumerate(blocks)):
            def t(it, sh=sh, linear=linear, seqs=seqs):
                m = e.module(CC)
                V, FA, TA = (it.lookup_global(e.module(CORE), k) for k in ("Variable", "FieldAccess", "TupleAccess"))
                TT, ST = it.lookup_global(e.module(TYM), "TupleType"), it.lookup_global(e.module(TYM), "StructType")
                IF = it.lookup_global(e.module(TYM), "InputFlags")
                leafty = SObj(ClassVal("LeafTy", builtin=True), {"linear": linear, "to_hugr": Builtin("to_hugr", lambda c: "H")})

                def mkty(s):
                    if s == "L":
                        return leafty
                    kids = [mkty(c) for c in s[1]]
                    if s[0] == "T":
                        return SObj(TT, {"element_types": kids, "args": [], "linear": linear, "to_hugr": Builtin("to_hugr", lambda c: "H")})
                    fl = [SObj(ClassVal("StructField", builtin=True), {"name": f"f{i}", "ty": k}) for i, k in enumerate(kids)]
                    return SObj(ST, {"fields": fl, "args": [], "defn": SObj(ClassVal("Defn", builtin=True), {"name": "S"}), "linear": linear, "to_hugr": Builtin("to_hugr", lambda c: "H")})
                ty = mkty(sh)
                root = SObj(V, {"name": "x", "ty": ty, "defined_at": None, "flags": it.getattr(IF, "NoFlags"), "is_func_input": False})

                def place(path):
                    p, t_ = root, ty
                    for i in path:
                        if t_.cls is TT:
                            t_ = t_.fields["element_types"][i]
                            p = SObj(TA, {"parent": p, "elem_ty": t_, "index": i, "exact_defined_at": None})
                        else:
                            f = t_.fields["fields"][i]
                            t_ = f.fields["ty"]
                            p = SObj(FA, {"parent": p, "field": f, "exact_defined_at": None})
                    return p
                results = []
                for seq in seqs:
                    val = {}
                    cnt = [0]

                    def fresh(v):
                        cnt[0] += 1
                        w = ("wire", cnt[0])
                        val[w] = v
                        return w

                    def add_op(op, *wires):
                        if op[0] == "MakeTuple":
                            return [fresh(("tuple", *[val[w] for w in wires]))]
                        return [fresh(("proj", i, val[wires[0]])) for i in range(op[1])]
                    e.ext_models["hugr.ops.MakeTuple"] = lambda it2, a, k: ("MakeTuple", len(a[0]))
                    e.ext_models["hugr.ops.UnpackTuple"] = lambda it2, a, k: ("UnpackTuple", len(a[0]))
                    DF = it.lookup_global(m, "DFContainer")
                    builder = SObj(ClassVal("Builder", builtin=True), {"add_op": Builtin("add_op", add_op)})
                    dfg = it.call(DF, [builder, "CTX"], {})
                    # spec state: current value of every leaf
                    cur = {}
                    k = [0]

                    def newval():
                        k[0] += 1
                        return ("w", k[0])

                    def spec_set(path, v):
                        for lp in leaves_of_path(path):
                            x = v
                            for i in lp[len(path):]:
                                x = ("proj", i, x)
                            cur[lp] = norm(x)

                    def leaves_of_path(path):
                        s = sh
                        for i in path:
                            s = s[1][i]
                        return [path + r for r in leaves_of(s)]

                    def spec_get(path):
                        s = sh
                        for i in path:
                            s = s[1][i]

                        def build(s_, p_):
                            if s_ == "L":
                                return cur[p_]
                            return ("tuple", *[build(c, p_ + (i,)) for i, c in enumerate(s_[1])])
                        return norm(build(s, path))
                    v0 = newval()
                    it.call_method(dfg, "__setitem__", [root, fresh(v0)])
                    spec_set((), v0)
                    ok, why = True, None
                    moved = set()          # linear leaves whose value was read (moved out) and not assigned since
                    for op in seq:
                        path = op[1] if len(op) > 1 else ()
                        try:
                            if op[0].startswith("set"):
                                v = newval()
                                it.call_method(dfg, "__setitem__", [place(path), fresh(v)])
                                spec_set(path, v)
                                moved -= set(leaves_of_path(path))
                            else:
                                if linear and moved & set(leaves_of_path(path)):
                                    break      # precondition of a read (linearity, C06): every leaf below holds a value
                                w = it.call_method(dfg, "__getitem__", [place(path)])
                                got, want = norm(val[w]), spec_get(path)
                                if got != want:
                                    ok, why = False, f"{op}: wire holds {got}, current value is {want}"
                                    break
                                if linear:
                                    moved |= set(leaves_of_path(path))
                        except PyRaise as ex:
                            ok, why = False, f"{op}: raised {ex.exc!r:.120}"
                            break
                    results.append((seq, ok, why))
                return results
            paths = e.explore(t)

            def post(p):
                if p.kind != "return":
                    return z3.BoolVal(False)
                bad = [r for r in p.value if not r[1]]
                if bad:
                    p.ctx.ghost["why"] = f"sequence {bad[0][0]}: {bad[0][2]}"
                return z3.BoolVal(not bad)
            whys = []
            outs = chk.prove_paths(f"DFContainer[{sname},{'linear' if linear else 'copyable'}-leaves;{len(all_seqs)} operation sequences{'' if len(blocks) == 1 else f', block {bi + 1} of {len(blocks)}'}]:every-read-returns-the-current-value(no-stale-packed-wire)", paths,
                                   lambda p: (lambda r: (whys.append(p.ctx.ghost.get("why")), r)[1])(post(p)), func=f"{CC}:DFContainer.__setitem__",
                                   replay=lambda m_: {"script": REPLAY_DFC, "input": {}})
            for o in outs:
                if o.status == "refuted" and whys and whys[0]:
                    o.detail = (o.detail + " " if o.detail else "") + whys[0]
            n_ok += 1 if bi == 0 else 0
    chk.record("DFContainer:shapes-explored", n_ok == 6, str(n_ok), kind="reachability")
    chk.use_engine(e)


REPLAY_DFC = r'''
import guppy_plainbool
import tempfile, importlib.util, os, sys, shutil
src = """from guppylang import guppy
from guppylang.std.builtins import result, owned, array
@guppy.struct
class S:
    xs: array[int, 2]
    ys: array[int, 2]
@guppy
def eat(s: S @owned) -> None:
    result("x", s.xs[0])
    result("y", s.ys[1])
@guppy
def lend(t: tuple[array[int, 2], array[int, 2]]) -> None:
    t[0][0] = t[0][0] + 1
@guppy
def main() -> None:
    s = S(array(1, 2), array(3, 4))
    eat(s)
    s.xs = array(5, 6)
    s.ys = array(7, 8)
    eat(s)
    t = (array(1, 2), array(3, 4))
    lend(t)
    lend(t)
    result("t", t[0][0])
"""
d = tempfile.mkdtemp(dir=os.environ.get("TMPDIR", "/var/tmp")); fn = os.path.join(d, "replay_c07d.py"); open(fn, "w").write(src)
spec = importlib.util.spec_from_file_location("replay_c07d", fn); m = importlib.util.module_from_spec(spec); sys.modules["replay_c07d"] = m
try:
    spec.loader.exec_module(m)
    m.main.check()
    try:
        got = [list(x) for x in list(m.main.emulator(n_qubits=1).run().results)[0].entries]
        want = [["x", 1], ["y", 4], ["x", 5], ["y", 8], ["t", 3]]
        out = {"violates": got != want, "observed": got, "required": want}
    except Exception as ex:
        out = {"violates": "more than one connection" in str(ex) or "alidation" in str(ex), "observed": "accepted by check(), but the HUGR is rejected: " + str(ex)[:300].replace("\\n", " ")}
except Exception as ex:
    out = {"violates": False, "error": repr(ex)[:300]}
shutil.rmtree(d, ignore_errors=True)
print(json.dumps(out))
'''
