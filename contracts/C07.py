"""C07 — Borrowed arguments reflect the callee's in-place updates.

Functions under contract:
  compiler/expr_compiler.py  ExprCompiler._update_inout_ports
  tys/ty.py                  FunctionType._to_hugr_function_type (borrowed inputs appended to the outputs)
The two agree on ONE convention: after the regular results, a call hands back the borrowed
arguments in parameter order.
  A  _update_inout_ports (pyvc, real code, all argument lists of length <= 3 over
     {not borrowed, borrowed place, borrowed place under a subscript, borrowed temporary}):
     the k-th returned wire is stored into the place of the k-th borrowed argument; a borrowed
     temporary consumes its wire; every wire is consumed (else assertion); a place under a
     subscript additionally gets its __setitem__ write-back, fed with the just-updated value,
     after the place was updated; arguments that are not borrowed are untouched.
  B  _to_hugr_function_type: outputs == row(output) ++ [types of Inout inputs, in input order];
     inputs == non-comptime inputs in order (arities <= 3, all flag vectors).
  C  BOUNDED end to end (contracts/C07_oracle.py): emulator result stream == CPython reference
     semantics for sequences of lending calls (quick 132 / thorough ~900 scenarios).
"""
import itertools
import json
import z3

from pyvc import SObj, ClassVal, Builtin, PyRaise
from .common import mk_engine
from .C07_oracle import ORACLE, DRIVER, REPLAY_ONE

TITLE = "borrowed arguments: returned wires are matched to borrowed parameters in order on both sides of a call; write-back through subscripts; emulator == Python reference (bounded)"
EC = "guppylang_internals.compiler.expr_compiler"
TY = "guppylang_internals.tys.ty"
NCH = 16


def run(chk):
    chk.section("update_inout_ports", lambda: ports(chk))
    chk.section("function-type", lambda: fntype(chk))
    for i in range(NCH):
        chk.section(f"bounded-{i}", lambda i=i: bounded(chk, i))
    chk.expected_min_obligations = 60
    chk.assumptions += ["the callee's definition returns its borrowed parameters after the regular results in parameter order (compile_cfg / function compilation; exercised by the bounded layer, not proved here)",
                        "DFContainer.__setitem__ stores a wire for a place and updates the enclosing struct/tuple places (C01's subject)",
                        "argument lists of length <= 3 are enumerated"]
    chk.not_covered += ["qubit-typed borrowed values on the emulator (bounded layer uses int arrays, structs, nested arrays, tuples)", "comptime functions"]


KINDS = ("plain", "place", "subscript", "temp")


def mk_dfg(setitem, getitem):
    """stub DFContainer: item stores / loads are forwarded to the recorder"""
    cls = ClassVal("DFContainerStub", builtin=True)
    cls.attrs["__setitem__"] = Builtin("__setitem__", lambda self, k, v: setitem(k, v))
    cls.attrs["__getitem__"] = Builtin("__getitem__", lambda self, k: getitem(k))
    return SObj(cls, {})


def ports(chk):
    e = mk_engine(chk)
    e.func_info(EC, "ExprCompiler._update_inout_ports")
    m = e.module(EC)
    n_obl = 0
    for n in range(0, 4):
        for kinds in itertools.product(KINDS, repeat=n):
            def t(it, kinds=kinds):
                EC_cls = it.lookup_global(m, "ExprCompiler")
                PN = it.lookup_global(m, "PlaceNode")
                IF = it.lookup_global(e.module(TY), "InputFlags")
                log = []
                store = {}

                class DFG(dict):
                    pass
                dfg_obj = SObj(ClassVal("DFContainer", builtin=True), {})
                dfg_store = {}

                def setitem(place, wire):
                    log.append(("set", place, wire))
                    dfg_store[id(place)] = wire
                    # updating a place under a subscript also updates what dfg[subscript] reads
                    sub = getattr(place, "_sub", None)
                    if sub is not None:
                        dfg_store[id(sub)] = ("element-of", wire)

                def getitem(place):
                    return dfg_store.get(id(place), ("old", place))
                dfg_obj.fields["__setitem__"] = None
                args, inputs, borrowed = [], [], []
                for i, k in enumerate(kinds):
                    flags = it.getattr(IF, "NoFlags") if k == "plain" else it.getattr(IF, "Inout")
                    inputs.append(SObj(ClassVal("FuncInput", builtin=True), {"flags": flags, "ty": "T"}))
                    if k == "temp":
                        args.append(SObj(ClassVal("TempExpr", builtin=True), {"i": i}))
                    else:
                        place = SObj(ClassVal("Place", builtin=True), {"i": i})
                        if k == "subscript":
                            sub = SObj(ClassVal("SubscriptPlace", builtin=True), {"i": i})
                            sub.fields["setitem_call"] = SObj(ClassVal("SetitemCall", builtin=True), {"value_var": SObj(ClassVal("Var", builtin=True), {"i": i}), "call": ("SETITEM-CALL", i)})
                            place._sub = sub
                            place.fields["sub"] = sub
                        args.append(SObj(PN, {"place": place}))
                    if k != "plain":
                        borrowed.append(i)
                wires = [("ret", j) for j in range(len(borrowed))]
                e.models["guppylang_internals.checker.core:contains_subscript"] = lambda it2, a, k2: a[0].fields.get("sub")
                fty = SObj(ClassVal("FT", builtin=True), {"inputs": inputs})
                self_ = SObj(EC_cls, {"visit": Builtin("visit", lambda x: log.append(("visit", x)) or "W"), "ctx": None})

                self_.fields["dfg"] = mk_dfg(setitem, getitem)
                it.call_method(self_, "_update_inout_ports", [args, list(wires), fty])      # pyvc models an iterator as the list of remaining items
                return log, args, borrowed, wires
            # dfg[...] item access on the stub container
            def t_wrapped(it, t=t):
                return t(it)
            e.item_hooks = True
            paths = e.explore(t_wrapped)

            def post(p, kinds=kinds):
                if p.kind != "return":
                    return z3.BoolVal(False)
                log, args, borrowed, wires = p.value
                sets = [x for x in log if x[0] == "set"]
                want = []
                k = 0
                for i, kd in enumerate(kinds):
                    if kd == "plain":
                        continue
                    if kd in ("place", "subscript"):
                        want.append((i, wires[k]))
                    k += 1
                # places updated: exactly the borrowed places, each with the wire of its rank, in order
                got = [(x[1].fields["i"], x[2]) for x in sets if x[1].cls.name == "Place"]
                ok = got == want
                # subscripts: value_var gets the updated element and the setitem call is compiled afterwards
                for i, kd in enumerate(kinds):
                    if kd == "subscript":
                        idx_set = [j for j, x in enumerate(log) if x[0] == "set" and x[1].cls.name == "Place" and x[1].fields["i"] == i]
                        idx_var = [j for j, x in enumerate(log) if x[0] == "set" and x[1].cls.name == "Var" and x[1].fields["i"] == i]
                        idx_call = [j for j, x in enumerate(log) if x[0] == "visit" and x[1] == ("SETITEM-CALL", i)]
                        ok = ok and len(idx_set) == len(idx_var) == len(idx_call) == 1 and idx_set[0] < idx_var[0] < idx_call[0]
                        if ok:
                            rank = [j for j in range(len(kinds)) if kinds[j] != "plain"].index(i)
                            ok = log[idx_var[0]][2] == ("element-of", wires[rank])
                ok = ok and len([x for x in log if x[0] == "visit"]) == sum(1 for kd in kinds if kd == "subscript")
                return z3.BoolVal(bool(ok))
            chk.prove_paths(f"_update_inout_ports[{','.join(kinds) or 'no-args'}]:k-th-returned-wire->k-th-borrowed-argument/\\temporaries-consume-theirs/\\all-wires-consumed/\\subscript-write-back-after-update",
                            paths, post, func=f"{EC}:ExprCompiler._update_inout_ports", replay=lambda m_: {"script": ORACLE + REPLAY_ONE, "input": {"ops": ["three(array(0, 0, 0), a, b)"]}})
            n_obl += 1
    # too few / too many returned wires are detected
    def t_extra(it):
        EC_cls = it.lookup_global(m, "ExprCompiler")
        self_ = SObj(EC_cls, {"visit": Builtin("visit", lambda x: "W"), "ctx": None, "dfg": mk_dfg(lambda p, w: None, lambda p: None)})
        it.call_method(self_, "_update_inout_ports", [[], [("ret", 0)], SObj(ClassVal("FT", builtin=True), {"inputs": []})])
    chk.prove_paths("_update_inout_ports:a-returned-wire-nobody-claims-is-an-assertion-failure", e.explore(t_extra),
                    lambda p: z3.BoolVal(p.kind == "raise" and p.raised(e, "AssertionError")), func=f"{EC}:ExprCompiler._update_inout_ports")
    chk.record("_update_inout_ports:all-argument-shapes-explored", n_obl >= 80, str(n_obl), kind="reachability")
    chk.use_engine(e)


def fntype(chk):
    e = mk_engine(chk)
    e.func_info(TY, "FunctionType._to_hugr_function_type")
    m = e.module(TY)
    FLAGS = ("NoFlags", "Inout", "Owned", "Comptime")
    cnt = 0
    for n in range(0, 4):
        for fl in itertools.product(FLAGS, repeat=n):
            def t(it, fl=fl):
                FT = it.lookup_global(m, "FunctionType")
                IF = it.lookup_global(m, "InputFlags")
                ins = []
                for i, f in enumerate(fl):
                    ty = SObj(ClassVal("Ty", builtin=True), {"i": i, "to_hugr": Builtin("to_hugr", lambda ctx, i=i: ("H", i))})
                    ins.append(SObj(ClassVal("FuncInput", builtin=True), {"ty": ty, "flags": it.getattr(IF, f)}))
                out = SObj(ClassVal("Ty", builtin=True), {"i": "out", "to_hugr": Builtin("to_hugr", lambda ctx: ("H", "out"))})
                e.models[f"{TY}:type_to_row"] = lambda it2, a, k: [a[0]]
                e.ext_models["hugr.tys.FunctionType"] = lambda it2, a, k: ("HFT", list(k.get("input", a[0] if a else [])), list(k.get("output", a[1] if len(a) > 1 else [])))
                self_ = SObj(FT, {"inputs": ins, "output": out, "params": []})
                return it.call_method(self_, "_to_hugr_function_type", ["CTX"])
            chk.prove_paths(f"FunctionType._to_hugr_function_type[{','.join(fl) or 'no-inputs'}]:outputs==results++borrowed-inputs-in-order/\\inputs==non-comptime-inputs-in-order", e.explore(t),
                            lambda p, fl=fl: z3.BoolVal(p.kind == "return" and p.value[0] == "HFT" and p.value[1] == [("H", i) for i, f in enumerate(fl) if f != "Comptime"]
                                                        and p.value[2] == [("H", "out")] + [("H", i) for i, f in enumerate(fl) if f == "Inout"]),
                            func=f"{TY}:FunctionType._to_hugr_function_type")
            cnt += 1
    chk.record("_to_hugr_function_type:all-flag-vectors-explored", cnt >= 80, str(cnt), kind="reachability")
    chk.use_engine(e)


def bounded(chk, i):
    from pyvc.report import run_replay
    res = run_replay(ORACLE + DRIVER, {"tier": chk.tier, "chunk": i, "nchunks": NCH}, chk.repo, timeout=6000)
    if "evaluations" not in res:
        chk.undecided(f"bounded[{i}/{NCH}]:scenarios", "oracle run failed: " + json.dumps(res)[:600])
        return
    w = res.get("witness")
    o = chk.bounded_result(f"bounded[{i}/{NCH}]:emulator-result-stream==Python-reference-semantics(slice {i} of {NCH}; {res['total']} lending scenarios)", not res.get("violates"), res["evaluations"],
                           detail=res.get("detail") or f"{res['evaluations']} scenarios run on the emulator and under CPython, {res['n_rejected']} rejected by the checker", witness=w,
                           func=f"{EC}:ExprCompiler._update_inout_ports")
    if w:
        o.replay.update({"script": ORACLE + REPLAY_ONE, "input": {"ops": w["ops"]}})
