"""C11 — Compiling a definition does not depend on session history.

Argument: the result of ENGINE.compile(id) is a function of (the registered definitions, the
engine's caches, module-level state).  So it suffices that
  E1  CompilationEngine.reset() replaces EVERY cache / worklist attribute the class ever mutates
      (all but the user-registered `additional_extensions`) by a fresh empty container;
  E2  check() calls reset() before it reads any cache; compile() starts with check(id) and builds a
      fresh hugr Module and a fresh CompilerContext;
  S   every piece of module-level or class-level state in guppylang / guppylang_internals that is
      mutated anywhere is one of: a counter that only numbers generated names, the definition
      store (the definitions ARE the input), the engine (E1/E2), a scoped context variable, or a
      user switch.  The scanner recomputes the sites from the current source on every run; a new
      or changed mutated global fails until it is classified.
  B   BOUNDED (native, contracts/C11_oracle.py): 8 target definitions x 9 session histories
      (other definitions checked/compiled before, the target compiled before, failing checks and
      compiles before): serialised HUGR identical to a fresh interpreter process up to numbering.
"""
import ast
import json
import os
import z3

from pyvc import SObj, ClassVal, Builtin
from .common import mk_engine
from .C11_oracle import ORACLE, DRIVER, MODULE

TITLE = "engine caches are reset before every check; all mutated global state is numbering / definition store / engine / scoped; HUGR identical across session histories (bounded)"
EN = "guppylang_internals.engine"
NCH = 13
BOUNDARIES = {"quick": [10, 100], "thorough": [10, 100, 1000]}

# classification of mutated module/class-level state (name -> (kind, justification))
ALLOWED = {
    "DefId._ids": ("numbering", "fresh definition ids; only identity and numbering of generated names depend on it"),
    "GlobalConstId._fresh_ids": ("numbering", "ids of lifted global constants, used in generated names"),
    "GuppyObjectId._fresh_ids": ("numbering", "ids of comptime objects during one tracing run"),
    "ExistentialVar._fresh_id": ("numbering", "ids of inference variables; never appear in the HUGR"),
    "tmp_vars": ("numbering", "names of temporaries %tmpN"),
    "_STATE": ("scoped", "tracing ContextVar: set by set_tracing_state and reset with its token in a finally block"),
    "EXPERIMENTAL_FEATURES_ENABLED": ("switch", "user-controlled feature switch, not compilation history"),
    "DEF_STORE": ("store", "the registered definitions, their frames and sources: the INPUT of compilation"),
    "ENGINE": ("engine", "caches replaced by reset() at the start of every check (E1/E2); additional_extensions is user-registered"),
}
MUT_METHODS = {"append", "extend", "add", "update", "pop", "popitem", "clear", "remove", "insert", "setdefault", "discard", "appendleft", "set", "reset"}


def run(chk):
    chk.section("engine", lambda: engine_section(chk))
    chk.section("global-state", lambda: scan_section(chk))
    chk.section("block-row-order", lambda: row_order_section(chk))
    chk.section("comptime-user-data", lambda: comptime_data_section(chk))
    for i in range(NCH):
        chk.section(f"bounded-{i}", lambda i=i: bounded(chk, i))
    chk.expected_min_obligations = 15
    chk.assumptions += [
        "counters classified `numbering` influence nothing but the numbering of generated names (the property's own exemption)",
        "objects hanging off registered definitions (e.g. CustomCallCompiler instances) keep only scratch fields that are overwritten before each use",
        "hugr-py builders (hf.Module, CompilerContext) carry no state across instances",
        "Python-level identity of definitions (DefId) is stable within a session",
    ]
    chk.not_covered += ["state inside third-party packages (hugr, tket_exts, selene)", "IPython cell re-definition (new DefIds for re-run cells)"]


def engine_section(chk):
    e = mk_engine(chk)
    for q in ("CompilationEngine.reset", "CompilationEngine.__init__", "CompilationEngine.check", "CompilationEngine.compile"):
        e.func_info(EN, q)
    m = e.module(EN)
    cls = [n for n in ast.walk(m.tree) if isinstance(n, ast.ClassDef) and n.name == "CompilationEngine"][0]
    # attributes of self that any method mutates (rebinding, item store, mutating method call)
    mutated = set()
    for fn in cls.body:
        if not isinstance(fn, ast.FunctionDef):
            continue
        for n in ast.walk(fn):
            if isinstance(n, (ast.Assign, ast.AugAssign, ast.AnnAssign)):
                ts = n.targets if isinstance(n, ast.Assign) else [n.target]
                for t in ts:
                    b = t.value if isinstance(t, ast.Subscript) else t
                    if isinstance(b, ast.Attribute) and isinstance(b.value, ast.Name) and b.value.id == "self":
                        mutated.add(b.attr)
            if isinstance(n, ast.Call) and isinstance(n.func, ast.Attribute) and n.func.attr in MUT_METHODS:
                b = n.func.value
                if isinstance(b, ast.Attribute) and isinstance(b.value, ast.Name) and b.value.id == "self":
                    mutated.add(b.attr)
    caches = sorted(mutated - {"additional_extensions"})
    chk.record("CompilationEngine:mutated-attributes-found", len(caches) >= 5, str(caches), kind="reachability")

    def t_reset(it):
        CE = it.lookup_global(m, "CompilationEngine")
        old = {a: {"stale": a} for a in caches}
        eng = SObj(CE, dict(old, additional_extensions=["EXT"]))
        it.call_method(eng, "reset", [])
        return eng, old
    chk.prove_paths("CompilationEngine.reset:every-cache-and-worklist-attribute-the-class-mutates-is-replaced-by-a-fresh-empty-dict/\\additional_extensions-untouched",
                    e.explore(t_reset),
                    lambda p: z3.BoolVal(p.kind == "return" and all(isinstance(p.value[0].fields[a], dict) and not p.value[0].fields[a] and p.value[0].fields[a] is not p.value[1][a]
                                                                     for a in p.value[1]) and p.value[0].fields["additional_extensions"] == ["EXT"]
                                         and len({id(p.value[0].fields[a]) for a in p.value[1]}) == len(p.value[1])),
                    func=f"{EN}:CompilationEngine.reset", replay=lambda m_: {"script": REPLAY_RESET, "input": {}})

    # additional_extensions is the one attribute reset() keeps: it is session CONFIGURATION (extensions the
    # user registers), so the compiler itself must never write it — otherwise what was compiled earlier
    # leaks into every later package.  (a) inside the class only __init__ and register_extension touch
    # it; (b) nothing in the two packages calls register_extension or mutates the list.
    writers = set()
    for fn in cls.body:
        if not isinstance(fn, ast.FunctionDef):
            continue
        for n in ast.walk(fn):
            tgt = []
            if isinstance(n, (ast.Assign, ast.AugAssign, ast.AnnAssign)):
                ts = n.targets if isinstance(n, ast.Assign) else [n.target]
                tgt = [t.value if isinstance(t, ast.Subscript) else t for t in ts]
            if isinstance(n, ast.Call) and isinstance(n.func, ast.Attribute) and n.func.attr in MUT_METHODS:
                tgt = [n.func.value]
            if any(isinstance(b, ast.Attribute) and b.attr == "additional_extensions" for b in tgt):
                writers.add(fn.name)
    chk.record("CompilationEngine.additional_extensions:written-only-by-__init__-and-register_extension", writers == {"__init__", "register_extension"}, str(sorted(writers)),
               func=f"{EN}:CompilationEngine.register_extension", backend="structural")
    callers = []
    for root in (os.path.join(chk.repo, "guppylang-internals/src/guppylang_internals"), os.path.join(chk.repo, "guppylang/src/guppylang")):
        for dp, dn, fns in os.walk(root):
            for f in fns:
                if not f.endswith(".py"):
                    continue
                pth = os.path.join(dp, f)
                try:
                    tree = ast.parse(open(pth).read())
                except SyntaxError:
                    continue
                for n in ast.walk(tree):
                    hit = isinstance(n, ast.Attribute) and n.attr in ("register_extension", "additional_extensions")
                    if hit and not (pth.endswith("guppylang_internals/engine.py") and isinstance(n.value, ast.Name) and n.value.id == "self"):
                        callers.append(f"{os.path.relpath(pth, chk.repo)}:{n.lineno}")
    o = chk.record("ENGINE.additional_extensions:no-checker-or-compiler-code-registers-extensions-or-writes-the-list(session configuration only)", not callers, ", ".join(callers[:6]),
                   func=f"{EN}:CompilationEngine.register_extension", backend="site-scanner")
    if callers:
        from pyvc.report import run_replay
        res = run_replay(REPLAY_EXT, {}, chk.repo, timeout=600)
        o.replay = {"confirmed": bool(res.get("violates")), "script": REPLAY_EXT, "input": {}, "native": res}

    def first_stmt(fname):
        fn = [f for f in cls.body if isinstance(f, ast.FunctionDef) and f.name == fname][0]
        body = [s for s in fn.body if not (isinstance(s, ast.Expr) and isinstance(s.value, ast.Constant)) and not isinstance(s, (ast.Import, ast.ImportFrom))]
        return ast.unparse(body[0]), ast.unparse(fn)
    s, src = first_stmt("check")
    chk.record("CompilationEngine.check:first-effect-is-self.reset()", s == "self.reset()", s, func=f"{EN}:CompilationEngine.check", backend="structural")
    s, src = first_stmt("compile")
    chk.record("CompilationEngine.compile:starts-with-self.check(id)", s == "self.check(id)", s, func=f"{EN}:CompilationEngine.compile", backend="structural")
    chk.record("CompilationEngine.compile:fresh-hugr-Module-and-fresh-CompilerContext-per-call", "graph = hf.Module()" in src and "ctx = CompilerContext(graph)" in src, "",
               func=f"{EN}:CompilationEngine.compile", backend="structural")

    # check(): the loop only consumes what was queued after the reset (nothing stale can be popped)
    def t_check(it):
        CE = it.lookup_global(m, "CompilationEngine")
        log = []
        eng = SObj(CE, {a: {"STALE": "stale"} for a in caches})
        eng.fields["additional_extensions"] = []
        eng.fields["get_checked"] = Builtin("get_checked", lambda i: log.append(i) or ("checked", i))
        raw = SObj(ClassVal("RawDef", builtin=True), {"id": "TARGET"})
        store = SObj(ClassVal("Store", builtin=True), {"raw_defs": {"TARGET": raw}, "frames": {}, "sources": None})
        it.ctx.mod_globals(m)["DEF_STORE"] = store
        it.call_method(eng, "check", ["TARGET"])
        return log, eng
    e.models[f"{EN}:ParsableDef"] = None
    e.models.pop(f"{EN}:ParsableDef")
    chk.prove_paths("CompilationEngine.check:stale-worklist-and-cache-entries-are-never-consulted(only-the-target-is-checked)", e.explore(t_check),
                    lambda p: z3.BoolVal(p.kind == "return" and p.value[0] == ["TARGET"] and "STALE" not in p.value[1].fields["checked"]),
                    func=f"{EN}:CompilationEngine.check", replay=lambda m_: {"script": REPLAY_RESET, "input": {}})
    chk.use_engine(e)


REPLAY_EXT = r'''
import guppylang
guppylang.enable_experimental_features()
from guppylang import guppy
from guppylang.std.quantum import qubit, h
control = object()
import tempfile, importlib.util, os, sys, shutil
src = """from guppylang import guppy
from guppylang.std.quantum import qubit, h
control = object()
@guppy
def plain(x: int) -> int:
    return x + 1
@guppy
def modified(q: qubit, c: qubit) -> None:
    with control(c):
        h(q)
"""
d = tempfile.mkdtemp(dir=os.environ.get("TMPDIR", "/var/tmp")); fn = os.path.join(d, "replay_c11e.py"); open(fn, "w").write(src)
spec = importlib.util.spec_from_file_location("replay_c11e", fn); m = importlib.util.module_from_spec(spec); sys.modules["replay_c11e"] = m
spec.loader.exec_module(m)
from guppylang_internals.engine import ENGINE
before = sorted(e.name for e in m.plain.compile_function().extensions)
cfg_before = [e.name for e in ENGINE.additional_extensions]
m.modified.compile_function()
after = sorted(e.name for e in m.plain.compile_function().extensions)
cfg_after = [e.name for e in ENGINE.additional_extensions]
shutil.rmtree(d, ignore_errors=True)
print(json.dumps({"violates": before != after or cfg_before != cfg_after, "observed": {"extensions of `plain` before": before, "after compiling `modified`": after, "registered": cfg_after}, "required": "the same package extensions before and after"}))
'''

REPLAY_RESET = r'''
from guppylang_internals.engine import CompilationEngine
e = CompilationEngine()
attrs = ["parsed", "checked", "compiled", "to_check_worklist", "types_to_check_worklist"]
for a in attrs: getattr(e, a)["STALE"] = "stale"
e.reset()
bad = [a for a in attrs if getattr(e, a)]
print(json.dumps({"violates": bool(bad), "detail": "reset() leaves stale entries in " + ", ".join(bad) if bad else None}))
'''


def scan_section(chk):
    roots = [os.path.join(chk.repo, "guppylang-internals/src/guppylang_internals"), os.path.join(chk.repo, "guppylang/src/guppylang")]
    mods = {}
    for root in roots:
        for dp, dn, fn in os.walk(root):
            for f in fn:
                if f.endswith(".py"):
                    p = os.path.join(dp, f)
                    try:
                        mods[p] = ast.parse(open(p).read())
                    except SyntaxError:
                        pass
    chk.record("scanner:modules-parsed", len(mods) > 100, str(len(mods)), kind="reachability")

    def stateful(v):
        return isinstance(v, (ast.Dict, ast.List, ast.Set, ast.ListComp, ast.DictComp, ast.SetComp, ast.GeneratorExp, ast.Call))
    sites = {}
    for p, tree in mods.items():
        for st in tree.body:
            if isinstance(st, ast.Assign):
                tg, val = [t for t in st.targets if isinstance(t, ast.Name)], st.value
            elif isinstance(st, ast.AnnAssign) and st.value is not None and isinstance(st.target, ast.Name):
                tg, val = [st.target], st.value
            else:
                continue
            for t in tg:
                if stateful(val):
                    sites[t.id] = (p, st.lineno)
        for n in ast.walk(tree):
            if isinstance(n, ast.Global):
                for nm in n.names:
                    sites[nm] = (p, n.lineno)
            if isinstance(n, ast.ClassDef):
                for st in n.body:
                    tgt = st.targets[0] if isinstance(st, ast.Assign) else st.target if isinstance(st, ast.AnnAssign) and st.value is not None else None
                    val = getattr(st, "value", None)
                    if not isinstance(tgt, ast.Name) or val is None:
                        continue
                    # class-level state shared by all instances: container displays and counters
                    # (dataclass `field(...)` defaults are per instance)
                    shared = isinstance(val, (ast.Dict, ast.List, ast.Set)) or (
                        isinstance(val, ast.Call) and ast.unparse(val.func) in ("dict", "list", "set", "defaultdict", "itertools.count", "count"))
                    if shared:
                        sites[n.name + "." + tgt.id] = (p, st.lineno)
    short = {}
    for k in sites:
        short.setdefault(k.split(".")[-1], []).append(k)      # a mutation through a bare attribute name counts for every site of that name
    mutated = {}

    def note(nm, where):
        for k in short[nm]:
            mutated.setdefault(k, []).append(where)
    for p, tree in mods.items():
        for n in ast.walk(tree):
            def base(b):
                return b.id if isinstance(b, ast.Name) else b.attr if isinstance(b, ast.Attribute) else None
            if isinstance(n, (ast.Assign, ast.AugAssign, ast.Delete)):
                ts = n.targets if isinstance(n, (ast.Assign, ast.Delete)) else [n.target]
                for t in ts:
                    if isinstance(t, ast.Subscript) and base(t.value) in short:
                        note(base(t.value), f"{os.path.basename(p)}:{n.lineno}")
            if isinstance(n, ast.Call) and isinstance(n.func, ast.Attribute) and n.func.attr in MUT_METHODS and base(n.func.value) in short:
                note(base(n.func.value), f"{os.path.basename(p)}:{n.lineno}:{n.func.attr}")
            if isinstance(n, ast.Call) and isinstance(n.func, ast.Name) and n.func.id == "next" and n.args and base(n.args[0]) in short:
                note(base(n.args[0]), f"{os.path.basename(p)}:{n.lineno}:next")
            if isinstance(n, ast.Global):
                for nm in n.names:
                    mutated.setdefault(nm, []).append(f"{os.path.basename(p)}:{n.lineno}:global")
    # the two singletons are stateful by construction
    for nm in ("DEF_STORE", "ENGINE"):
        if nm in sites:
            mutated.setdefault(nm, []).append("singleton instance")
    for nm in sorted(mutated):
        ok = nm in ALLOWED
        chk.record(f"global-state[{nm}]:classified({ALLOWED[nm][0] if ok else 'UNCLASSIFIED'})", ok,
                   (ALLOWED[nm][1] if ok else "mutated at " + ", ".join(mutated[nm][:5])) + f" [defined {os.path.relpath(sites[nm][0], chk.repo)}:{sites[nm][1]}]" if nm in sites else "",
                   func=f"{os.path.relpath(sites[nm][0], chk.repo) if nm in sites else '?'}:{nm}", backend="site-scanner")
    missing = [k for k in ALLOWED if k not in mutated]
    chk.record("global-state:every-classified-site-still-exists", not missing, "vanished: " + ", ".join(missing), kind="reachability")
    # ---- user namespaces (frame dictionaries / module dicts) outlive every check and are NOT reset by
    # the engine: a write into one makes later compiles depend on the session history.  Every store /
    # delete / mutating call whose target goes through f_locals, f_globals, f_builtins, __globals__
    # or __dict__ must be classified; the only allowed writer restores what it changed (C23).
    NS = {"f_locals", "f_globals", "f_builtins", "__globals__", "__dict__"}
    NS_ALLOWED = {"tracing/builtins_mock.py:mock_builtins": "temporary shadowing of int/float/len, undone in a finally block (proved under C23)"}

    def through_ns(x):
        while isinstance(x, (ast.Attribute, ast.Subscript, ast.Call)):
            if isinstance(x, ast.Attribute) and x.attr in NS:
                return True
            x = x.value if not isinstance(x, ast.Call) else x.func
        return False
    ns_sites = {}
    for p, tree in mods.items():
        for fn in ast.walk(tree):
            if not isinstance(fn, (ast.FunctionDef, ast.AsyncFunctionDef)):
                continue
            for n in ast.walk(fn):
                hit = None
                if isinstance(n, (ast.Assign, ast.AugAssign, ast.Delete)):
                    ts = n.targets if isinstance(n, (ast.Assign, ast.Delete)) else [n.target]
                    for t in ts:
                        if isinstance(t, ast.Subscript) and through_ns(t.value):
                            hit = "item store/delete"
                if isinstance(n, ast.Call) and isinstance(n.func, ast.Attribute) and n.func.attr in MUT_METHODS and through_ns(n.func.value):
                    hit = n.func.attr
                if isinstance(n, ast.Call) and isinstance(n.func, ast.Name) and n.func.id in ("setattr", "delattr") and n.args and isinstance(n.args[0], ast.Name) and n.args[0].id in ("module", "mod"):
                    hit = n.func.id
                if hit:
                    rel = os.path.relpath(p, chk.repo).split("guppylang_internals/")[-1].split("src/guppylang/")[-1]
                    ns_sites.setdefault(f"{rel}:{fn.name}", []).append(f"line {n.lineno} ({hit})")
    for k in sorted(ns_sites):
        ok = k in NS_ALLOWED
        chk.record(f"user-namespace-write[{k}]:classified({'restored' if ok else 'UNCLASSIFIED'})", ok,
                   (NS_ALLOWED[k] if ok else "writes into a frame/module dictionary that outlives the check: ") + "; ".join(ns_sites[k]),
                   func=f"guppylang_internals/{k}", backend="site-scanner")
    chk.record("user-namespace-writes:the-classified-writer-still-exists", all(k in ns_sites for k in NS_ALLOWED), str(sorted(ns_sites)), kind="reachability")
    # the scoped ContextVar is reset in a finally block
    st = [p for p in mods if p.endswith("tracing/state.py")]
    src = open(st[0]).read() if st else ""
    chk.record("tracing._STATE:set-and-reset-are-paired(token reset in finally)", "token = _STATE.set(" in src and "finally:" in src and "_STATE.reset(token)" in src, "", backend="structural",
               func="guppylang_internals.tracing.state:set_tracing_state")


REPLAY_ROWORDER = r'''
from guppylang_internals.compiler.cfg_compiler import sort_vars
from guppylang_internals.checker.core import Variable
from guppylang_internals.tys.builtin import int_type
import guppylang.std.quantum as Q
from guppylang_internals.engine import ENGINE
I = INPUT
q_ty = ENGINE.get_checked(Q.qubit.id).check_instantiate([])
assert not q_ty.droppable
def V(name, lin=False): return Variable(name, q_ty if lin else int_type(), None)
nums = I["numbers"]; shifts = I["shifts"]
bad = None; n = 0
def shape(row, k):
    # the permutation applied by sort_vars, with generated names written as their offset from the shift
    import re
    return [re.sub(r"%tmp(\d+)", lambda m: "%tmp+" + str(int(m[1]) - k), str(v)) for v in sort_vars(row)]
for a in nums:
    for b in nums:
        if a >= b: continue
        for lin_a in (False, True):
            row0 = lambda k: [V(f"%tmp{b + k}"), V("zeta"), V(f"%tmp{a + k}", lin_a), V("alpha"), V("%ret0"), V(f"%tmp{b + k + 1}")]
            base = shape(row0(0), 0)
            for k in shifts:
                n += 1
                got = shape(row0(k), k)
                if got != base and bad is None:
                    bad = {"a": a, "b": b, "shift": k, "detail": f"row with temporaries %tmp{a}, %tmp{b}, %tmp{b+1} is ordered {base}; the same row with every number shifted by {k} is ordered {got}"}
print(json.dumps({"violates": bad is not None, "evaluations": n, "witness": bad, "detail": bad and bad["detail"]}))
'''


def row_order_section(chk):
    """The order of a basic block's row (sort_vars / compare_var, compiler/cfg_compiler.py) decides the
    port numbers of the block.  Generated temporaries are numbered by a session-wide counter, so the
    order must be invariant under shifting all their numbers by the same amount (the only thing earlier
    checks can do to them).  BOUNDED: numbers and shifts around the digit boundaries are enumerated on
    the real function; the regular expression in the key is outside the symbolic executor."""
    from pyvc.report import run_replay
    inp = {"numbers": [0, 1, 2, 7, 8, 9, 10, 11, 19, 20, 98, 99, 100, 101, 998, 999, 1000, 1001], "shifts": [1, 2, 3, 8, 9, 10, 11, 89, 90, 91, 99, 100, 900, 901, 999, 1000, 8999, 9001]}
    res = run_replay(REPLAY_ROWORDER, inp, chk.repo, timeout=600)
    if "evaluations" not in res:
        chk.undecided("bounded:sort_vars-shift-invariance", "oracle run failed: " + json.dumps(res)[:600])
        return
    o = chk.bounded_result("bounded:sort_vars(row)-is-invariant-under-shifting-the-numbers-of-generated-temporaries(18 numbers x 18 shifts around the digit boundaries, droppable and linear)",
                           not res.get("violates"), res["evaluations"], detail=res.get("detail") or f"{res['evaluations']} shifted rows ordered like the unshifted row",
                           witness=res.get("witness"), func="guppylang_internals.compiler.cfg_compiler:compare_var")
    if res.get("witness"):
        o.replay.update({"script": REPLAY_ROWORDER, "input": inp})


REPLAY_USERDATA = r'''
import tempfile, importlib.util, os, sys, shutil
src = """from guppylang import guppy
from guppylang.std.builtins import array, owned
xs = [1, 2, 3]
ys = [4, 5, 6]
@guppy
def touch(a: array[int, 3]) -> None:
    pass
@guppy
def take(a: array[int, 3] @owned) -> None:
    pass
@guppy.comptime
def borrows() -> None:
    touch(xs)
@guppy.comptime
def moves() -> None:
    take(ys)
"""
d = tempfile.mkdtemp(dir=os.environ.get("TMPDIR", "/var/tmp")); fn = os.path.join(d, "replay_c11u.py"); open(fn, "w").write(src)
spec = importlib.util.spec_from_file_location("replay_c11u", fn); m = importlib.util.module_from_spec(spec); sys.modules["replay_c11u"] = m
spec.loader.exec_module(m)
which = INPUT["which"]
f, data, want = (m.borrows, m.xs, [1, 2, 3]) if which == "borrowed" else (m.moves, m.ys, [4, 5, 6])
def go():
    try:
        return "hugr:" + str(len(f.compile_function().modules[0]))
    except BaseException as e:
        return "raised " + type(e).__name__
first = go(); data_after = [v if isinstance(v, int) else type(v).__name__ for v in data]; second = go()
shutil.rmtree(d, ignore_errors=True)
print(json.dumps({"violates": first != second or data_after != want, "evaluations": 2, "observed": {"first compile": first, "the user's list afterwards": data_after, "second compile": second},
                  "required": "both compiles give the same outcome and the module-level list still holds " + str(want),
                  "detail": f"first compile {first}, list afterwards {data_after}, second compile {second}"}))
'''


def comptime_data_section(chk):
    """BOUNDED: a comptime function reading a module-level Python list, compiled twice (the list is user
    data that outlives the compile; tracing must not leave objects of one compile in it)."""
    from pyvc.report import run_replay
    for which in ("borrowed", "owned"):
        res = run_replay(REPLAY_USERDATA, {"which": which}, chk.repo, timeout=600)
        if "evaluations" not in res:
            chk.undecided(f"bounded:comptime-global-list[{which}]", "oracle run failed: " + json.dumps(res)[:600])
            continue
        o = chk.bounded_result(f"bounded:comptime-global-list[passed-to-a-function-taking-the-array-{which}]:compiled-twice=>same-outcome/\\list-untouched",
                               not res.get("violates"), res["evaluations"], detail=res.get("detail"), witness=res.get("observed") if res.get("violates") else None,
                               func="guppylang_internals.tracing.unpacking:update_packed_value")
        if res.get("violates"):
            o.replay.update({"script": REPLAY_USERDATA, "input": {"which": which}})


def bounded(chk, i):
    from pyvc.report import run_replay
    res = run_replay(ORACLE + DRIVER, {"module": MODULE, "oracle": ORACLE, "chunk": i, "nchunks": NCH, "boundaries": BOUNDARIES[chk.tier]}, chk.repo, timeout=6000)
    if "evaluations" not in res:
        chk.undecided(f"bounded[{i}/{NCH}]:histories", "oracle run failed: " + json.dumps(res)[:600])
        return
    w = res.get("witness")
    o = chk.bounded_result(f"bounded[{i}/{NCH}]:HUGR-after-history==HUGR-in-a-fresh-process(target {i}; 13 histories, the generated-name counter placed at every position around its digit boundaries, repeated failing checks)", not res.get("violates"), res["evaluations"],
                           detail=res.get("detail") or f"{res['evaluations']} (target, history) pairs compared", witness=w, func=f"{EN}:CompilationEngine.compile")
    if w:
        o.replay.update({"script": ORACLE + DRIVER, "input": {"module": MODULE, "oracle": ORACLE, "chunk": i, "nchunks": NCH, "boundaries": BOUNDARIES[chk.tier]}})
