"""Per-property metadata used to generate MANIFEST.json (tools/mkmanifest.py)."""

CLAIMED = {
 "C30": dict(
    category="proof", design_ref="DESIGN.md §6 C30",
    text="All obligations of Span.__contains__/__and__/__post_init__ and the generated Loc ordering are discharged by z3 for every span/location (unbounded ints, arbitrary file strings); the intersection clause is a universally quantified membership equivalence. Right level: the functions are small, pure and fully inside the modelled subset.",
    note="pyvc symbolic executor + z3; dataclass(order=True) semantics assumed lexicographic; spans are objects of the concrete shape Span(Loc,Loc).",
    technique="deductive: VCs generated from the real AST of span.py (path-wise symbolic execution), discharged by z3"),
}

NOT_APPLICABLE = {
}
