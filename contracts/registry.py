"""Per-property metadata used to generate MANIFEST.json (tools/mkmanifest.py)."""

CLAIMED = {
 "C30": dict(
    category="proof", design_ref="DESIGN.md §6 C30",
    text="All obligations of Span.__contains__/__and__/__post_init__ and the generated Loc ordering are discharged by z3 for every span/location (unbounded ints, arbitrary file strings); the intersection clause is a universally quantified membership equivalence. Right level: the functions are small, pure and fully inside the modelled subset.",
    note="pyvc symbolic executor + z3; dataclass(order=True) semantics assumed lexicographic; spans are objects of the concrete shape Span(Loc,Loc).",
    technique="deductive: VCs generated from the real AST of span.py (path-wise symbolic execution), discharged by z3"),
 "C33": dict(
    category="proof", design_ref="DESIGN.md §6 C33",
    text="Contracts on both context-manager classes (constructor sets the global and saves the old value; __exit__ restores it for every argument triple and never swallows), a with-statement obligation with an arbitrary (havocking, possibly raising) body that subsumes every nesting, the four gates (raise GuppyError iff the global is false, no state change), and dominance obligations at all 8 call sites that handle a gated feature. All discharged by z3 / structural check of the real AST.",
    note="module global modelled as one symbolic bool; Python's with-protocol as implemented by pyvc; diagnostics modelled as records; call-site obligations are syntactic dominance (gate call precedes feature code on every path of the function body).",
    technique="deductive: VCs from the real AST of experimental.py + dominance obligations on the AST of the 8 call-site functions; z3"),
 "C17": dict(
    category="proof", design_ref="DESIGN.md §6 C17",
    text="For every mathematical integer v: _int_bounds_check raises iff v is outside the signed/unsigned 64-bit range; python_value_to_guppy_type returns nat iff hinted nat and 0<=v<2^64, int iff v in int64, raises otherwise, for scalars and for every element of tuple/list constants (lengths 2,3 symbolic elements); USub folding maps Constant(v) to Constant(-v); python_value_to_hugr passes exactly v at log-width 6 to IntVal / the ConstInt payload. 49 obligations, z3.",
    note="hugr.std.int.IntVal and hugr.val.Extension are external constructors modelled as records (assumed); frozenarray_type modelled as a record; container obligations are for lengths 2 and 3 (the loop over `rest` is unrolled), not for arbitrary length.",
    technique="deductive: path-wise symbolic execution of the real functions (incl. the real NumericType/diagnostic classes) over a z3 Int; z3"),
 "C04": dict(
    category="proof", design_ref="DESIGN.md §6 C04",
    text="Binding-table + Guppy mode: the op every int/nat/float/bool dunder is bound to is extracted by evaluating the real decorator expressions (util.int_op/float_op/... run symbolically up to the hugr boundary); for each (type, dunder) z3 proves, over all 64-bit / binary64 operands in Python's domain of definition, that Python's result reduced mod 2^64 equals the assumed semantics of the bound op (Guppy-defined bodies are unfolded). ReversingChecker, DunderChecker bindings, binary_table/unary_table and the dispatch order of _synthesize_binary are proved from their real code. Known upstream defects (signed //,%,divmod with negative divisor; >> on negative ints) are split off as known findings, their complements are proved.",
    note="HUGR op semantics are ASSUMED (table transcribed from hugr.std op descriptions, printed in the evidence); ** and float round are uninterpreted; float // and % are not compared with CPython's fmod algorithm; mixed int/float operands not covered.",
    technique="deductive: binding extraction by symbolic evaluation of the real decorators + per-operator SMT obligations (z3 BV/FP) against Python semantics"),
 "C16": dict(
    category="proof", design_ref="DESIGN.md §6 C16",
    text="Exhaustive 4x4 (kinds + non-numeric) symbolic execution of the real try_coerce_to and 3x3 of check_type_against: a coercion happens iff the kind strictly widens in Nat<Int<Float, it calls exactly the direct conversion method of the actual type, narrowing raises GuppyTypeError; Kind.__lt__/auto numbering proved equal to that order; the three conversion methods' bound ops are proved value-preserving (nat->int for v<2^63, ->float = round-to-nearest of the unsigned/signed reading) over all 64-bit values.",
    note="convert_u/convert_s semantics assumed; get_instance_func/check_call mocked (the obligation is which method is requested).",
    technique="deductive: exhaustive path-wise symbolic execution of the real functions over the finite kind domain + z3 BV/FP obligations for the bound conversion ops"),
 "C09": dict(
    category="proof", design_ref="DESIGN.md §6 C09",
    text="The real BackwardAnalysis.run / ForwardAnalysis.run (with the real LivenessAnalysis / AssignmentAnalysis methods) are executed symbolically over an arbitrary CFG (uninterpreted blocks/variables, arbitrary real and dummy edge relations, arbitrary use/assign maps) with queue.pop() returning an ARBITRARY member; the worklist loop is cut at an inductive invariant (shape, 'every block outside the queue satisfies its equation', per-variable extremality against an arbitrary closed / post-fixpoint family). z3 proves initialisation, preservation and that at loop exit the result is a fixpoint and the unique extremal one, hence independent of the visiting order, for include_unreachable True and False. LivenessAnalysis.join's loop is proved against its contract; AssignmentAnalysis.__init__ establishes all_vars. Obligations left open by quantifier reasoning are re-checked on finite instances of the sorts to produce counter-models, which are replayed on the real classes under all pop orders.",
    note="predecessors are assumed inverse to successors; bbs closed under edges; lists modelled as sets; liveness dict abstracted to key set + witness; termination not proved; the 'path' reading of the extremal solution is the standard lemma (not mechanised).",
    technique="deductive: loop-invariant VCs generated from the real run() bodies by symbolic execution (arbitrary pop), z3 with quantifiers; finite-instance counter-model search for refutations"),
 "C18": dict(
    category="proof", design_ref="DESIGN.md §6 C18",
    text="Guppy-mode symbolic execution of the real Range.__next__ over all 64-bit next/stop/step (operators dispatched through the extracted std/num.py bindings): one-step obligations O1 (yields `next` iff Python's range has an element there), O2 (successor is next+step when Python has a following element), O3 (successor exhausted otherwise) give by induction over the number of yields that the yielded sequence is Python's; constructors _range1/2/3/_range_comptime, the SizedIter size annotation and the overload order are checked against the source. O3 is split along the known wrap-around defect (known finding), its complement is proved.",
    note="hugr op semantics assumed as in C04; the induction over yields is on paper; struct/Option modelled as records; replay is model-level (real source text under CPython with an int64 wrapper) because the emulator cannot run loops in this sandbox.",
    technique="deductive: Guppy-mode VCs from the real iter.py bodies over 64-bit vectors, z3"),
 "C27": dict(
    category="proof", design_ref="DESIGN.md §6 C27",
    text="Guppy-mode symbolic execution of every Stack and PriorityQueue method for an arbitrary capacity < 2^62 and an arbitrary well-formed state: Stack operations against the list view (push/pop/peek/len/next/empty, exact panic conditions, prefix unchanged); PriorityQueue push/pop/peek/next/empty preserve wf + heap order, pop/peek return the root, the ghost multiset of entries changes by exactly the pushed/popped entry, no spurious panic; sift-up and sift-down loops are cut at inductive invariants (heap-except-at-i with grandparent clause; hole-at-i). Root minimality from heap order: induction step discharged by z3. 133 obligations incl. an in-range obligation for every arithmetic result.",
    note="array/Option cell primitives and the bag point-update law are assumed (guppycoll.py); ints are mathematical with explicit no-overflow obligations (relies on C04 for + - * // comparisons inside int64); induction schema for root minimality applied on paper. After a code change, obligations the solver leaves open are handed to a bounded model-level counterexample finder (C27_harness.py) that only supplies failing inputs.",
    technique="deductive: loop-invariant VCs generated from the real collection bodies (Guppy mode, mathematical ints + overflow obligations), z3 with quantifiers over array indices"),
 "C23": dict(
    category="proof", design_ref="DESIGN.md §6 C23",
    text="The real mock_builtins generator is executed through the `with` protocol (inline expansion at its yield) for all 8 combinations of user bindings of float/int/len, with a body that may raise, also one level nested: on both exits the dictionary has exactly its initial keys and the identical value objects, the mocks are visible inside, and the exception propagates; plus structural obligations: every call of the user's function in trace_function sits inside `with mock_builtins(python_func)`, and nothing else in the tracing package touches __globals__.",
    note="body assumed not to rebind the user's globals itself; deeper nesting by induction with this contract as hypothesis; pyvc's model of with/@contextmanager/try-finally is trusted.",
    technique="deductive: exhaustive path-wise symbolic execution of the real context manager over the complete 8x2x2 case split + AST containment obligations"),
 "C28": dict(
    category="proof", design_ref="DESIGN.md §6 C28",
    text="Every with_*/..._sim derivation of EmulatorInstance (and the replace-based ones of EmulatorBuilder) is executed on a concrete object graph with symbolic leaves and real aliasing: the result is a new instance differing from old(self) only in the named option; a heap snapshot proves that no field of any object reachable from self changes (modifies-nothing), *_sim create a simulator object that did not exist before and is not shared between two derivations; _run_instance passes every option to the keyword of the same meaning. with_seed's write to the shared simulator is the known finding; all its other frame clauses are proved.",
    note="selene constructors modelled as fresh-record constructors; reproducibility of run() follows from the frames plus the assumed functional behaviour of selene's run_shots.",
    technique="deductive: symbolic execution with an explicit heap (object identity, snapshot frames) of the real methods; z3 for leaf equalities"),
 "C21": dict(
    category="proof", design_ref="DESIGN.md §6 C21",
    text="Dispatch layer only: each of the 50 DunderMixin methods is executed with its real body and must request the traced object's method of its own name with the same arguments; the real binary_operation wrapper is executed in three scenarios per sample operator (own method succeeds / fails and the reflected method of the other operand is called with swapped operands / both fail and a GuppyTypeError carries the operand types in source order); tables are compared with the regular-mode tables of expr_checker; the decorator placement is checked per method; the mocked int/float/len are executed for GuppyObject and plain arguments. Together with C04's proof of the regular-mode dispatch this gives identical operator resolution in both modes.",
    note="does not cover values computed (both modes call the same definitions), unpack_guppy_object/guppy_object_from_py, trace_call; decorators functools.wraps/capture_guppy_errors treated as transparent.",
    technique="deductive: symbolic execution of the real mixin methods and wrappers with mocked tracing state; finite complete case splits"),
 "C24": dict(
    category="proof", design_ref="DESIGN.md §6 C24",
    text="The real BBUnitaryChecker / check_cfg_unitary / check_invalid_under_dagger run (through the NodeVisitor prelude) on statement trees built from /repo's own node classes: _check_call is decided for the complete 8x8 UnitaryFlags domain x qubit/classical arguments (rejected iff a qubit argument and context flags not a subset of callee flags, diagnostic carries the missing flags); coverage scenarios prove a violating call is found as a statement, in the block's branch predicate, nested in the first argument and in an argument after a qubit argument, in assignment values, as LocalCall and TensorCall; barrier/state_result and classical-only calls are accepted; under Dagger assignments, subscripted places and loops are rejected and accepted without it; add_unitarity_metadata records flags.value for all 8 values.",
    note="argument types are abstracted to a has-qubit attribute; ENGINE.get_parsed is a table; with-block contexts use the same checker through ModifiedBlock.flags (not re-proved here).",
    technique="deductive: exhaustive symbolic execution of the real visitor over the finite flag domain + structural coverage scenarios on /repo's node classes"),
}

NOT_APPLICABLE = {
}
