"""Native oracle for C13 (bounded layer): a generic definition behaves like its textually specialised copy.

Each member of a family is a definition written ONCE as a template; the generic version binds the
template's parameters as Guppy generic parameters (type variables, nat / bool const parameters,
@comptime arguments), the specialised copies substitute the inferred arguments textually (types in
annotations, constants in types and bodies) and drop the parameter list.  A Guppy `main` calls the
generic version and the matching copy with the same arguments and reports both results; the program
is compiled by the real pipeline (check, monomorphisation, HUGR lowering) and run on the selene
emulator.  Required: every pair of reports is equal.  The family covers type parameters (copyable
and not), nat parameters used in types and as values, bool const parameters (which force
monomorphisation), @comptime arguments, generic structs, generic-calls-generic composition, a dependent @comptime parameter
forwarded through two generic functions (T := nat / int / float), and
partial specialisation (a generic caller passing its own type variable on while fixing a comptime
argument).
"""
ORACLE = r'''
import guppy_plainbool
import os, sys, tempfile, importlib.util, shutil, json
from guppylang_internals.error import GuppyError

HEAD = """from guppylang import guppy
from guppylang.std.builtins import array, result, comptime, nat, owned
from guppylang.std.option import Option, some, nothing
"""

# (name, template, generic binding, [specialisations]); a specialisation = (suffix, substitution, call arguments, reporter)
# In templates: {P} = parameter list of the definition ("[T, n: nat]" or ""), {N} = the definition's name,
# other {X} are the parameters.  `rep` says how to report a result r as ints: list of expressions over r.
FAMILY = [
    ("ident", "@guppy\ndef {N}{P}(x: {T}) -> {T}:\n    return x\n", {"P": "[T: (Copy, Drop)]", "T": "T"},
     [("i", {"T": "int"}, "7", ["r"]), ("f", {"T": "float"}, "2.5", ["int(r * 2.0)"]), ("t", {"T": "tuple[int, bool]"}, "(3, True)", ["r[0]", "1 if r[1] else 0"])]),
    ("move", "@guppy\ndef {N}{P}(x: {T} @owned) -> {T}:\n    return x\n", {"P": "[T]", "T": "T"},
     [("a", {"T": "array[int, 2]"}, "array(4, 5)", ["r[0] * 10 + r[1]"])]),
    ("swap", "@guppy\ndef {N}{P}(x: {T}, y: {U}) -> tuple[{U}, {T}]:\n    return y, x\n", {"P": "[T: (Copy, Drop), U: (Copy, Drop)]", "T": "T", "U": "U"},
     [("if", {"T": "int", "U": "float"}, "4, 1.5", ["int(r[0] * 2.0)", "r[1]"]), ("bi", {"T": "bool", "U": "int"}, "True, 9", ["r[0]", "1 if r[1] else 0"])]),
    ("total", "@guppy\ndef {N}{P}(xs: array[int, {n}] @owned) -> int:\n    s = 0\n    for x in xs:\n        s += x\n    return s * 100 + {n}\n", {"P": "[n: nat]", "n": "n"},
     [("2", {"n": "2"}, "array(5, 6)", ["r"]), ("4", {"n": "4"}, "array(1, 2, 3, 4)", ["r"])]),
    ("pick", "@guppy\ndef {N}{P}(xs: array[{T}, {n}] @owned, i: int, d: {T}) -> {T}:\n    k = 0\n    r = d\n    for x in xs:\n        if k == i:\n            r = x\n        k += 1\n    return r\n", {"P": "[T: (Copy, Drop), n: nat]", "T": "T", "n": "n"},
     [("i3", {"T": "int", "n": "3"}, "array(7, 8, 9), 2, 0", ["r"]), ("f2", {"T": "float", "n": "2"}, "array(0.5, 1.5), 1, 0.0", ["int(r * 2.0)"])]),
    ("scale", "@guppy\ndef {N}(x: int{K}) -> int:\n    return x * {k} + {k}\n", {"K": ", k: int @comptime", "k": "k"},
     [("3", {"K": "", "k": "3"}, "5", ["r"], "{N}(5, 3)"), ("m2", {"K": "", "k": "-2"}, "5", ["r"], "{N}(5, -2)")]),
    ("weigh", "@guppy\ndef {N}(x: int{K}) -> int:\n    return x * 100 + {a} * 10 + {b}\n", {"K": ", a: int @comptime, b: int @comptime", "a": "a", "b": "b"},
     [("23", {"K": "", "a": "2", "b": "3"}, "1", ["r"], "{N}(1, 2, 3)"), ("70", {"K": "", "a": "7", "b": "0"}, "4", ["r"], "{N}(4, 7, 0)")]),
    ("weigh3", "@guppy\ndef {N}{P}(x: {T}{K}) -> tuple[{T}, int]:\n    return x, {a} * 100 + {b} * 10 + {c}\n", {"P": "[T: (Copy, Drop)]", "T": "T", "K": ", a: nat @comptime, b: nat @comptime, c: nat @comptime", "a": "a", "b": "b", "c": "c"},
     [("f", {"T": "float", "K": "", "a": "1", "b": "2", "c": "3"}, "0.5", ["int(r[0] * 2.0)", "r[1]"], "{N}(0.5, 1, 2, 3)")]),
    ("flag", "@guppy\ndef {N}{P}(x: int) -> int:\n    if {b}:\n        return x + 1\n    return x - 1\n", {"P": "[b: bool]", "b": "b"},
     [("t", {"b": "True"}, "10", ["r"], "{N}[True](10)"), ("f", {"b": "False"}, "10", ["r"], "{N}[False](10)")]),
    ("fill", "@guppy\ndef {N}{P}(x: {T}) -> array[{T}, {n}]:\n    return array(x for _ in range({n}))\n", {"P": "[T: (Copy, Drop), n: nat]", "T": "T", "n": "n"},
     [("i3", {"T": "int", "n": "3"}, "4", ["r[0] + r[1] + r[2]"], "{N}[int, 3](4)"), ("f2", {"T": "float", "n": "2"}, "0.5", ["int((r[0] + r[1]) * 2.0)"], "{N}[float, 2](0.5)")]),
    ("twice_then", "@guppy\ndef {N}_inner{P}(x: {T}) -> tuple[{T}, {T}]:\n    return x, x\n@guppy\ndef {N}{Q}(xs: array[{T}, {n}] @owned, d: {T}) -> tuple[{T}, {T}]:\n    y = d\n    for x in xs:\n        y = x\n    return {N}_inner(y)\n",
     {"P": "[T: (Copy, Drop)]", "Q": "[T: (Copy, Drop), n: nat]", "T": "T", "n": "n"},
     [("i2", {"T": "int", "n": "2"}, "array(3, 4), 0", ["r[0] * 10 + r[1]"]), ("f3", {"T": "float", "n": "3"}, "array(0.5, 1.0, 1.5), 0.0", ["int((r[0] + r[1]) * 2.0)"])]),
    ("partial", "@guppy\ndef {N}_inner{P}(x: {T}{K}) -> tuple[{T}, int]:\n    return x, {k} * 2\n@guppy\ndef {N}{P}(x: {T}) -> tuple[{T}, int]:\n    return {N}_inner(x{A})\n",
     {"P": "[T: (Copy, Drop)]", "T": "T", "K": ", k: int @comptime", "k": "k", "A": ", 21"},
     [("i", {"T": "int", "K": "", "k": "21", "A": ""}, "8", ["r[0]", "r[1]"]), ("f", {"T": "float", "K": "", "k": "21", "A": ""}, "1.5", ["int(r[0] * 2.0)", "r[1]"])]),
    ("box", "@guppy.struct\nclass {N}_Box{P}:\n    val: {T}\n    n: int\n@guppy\ndef {N}{P}(b: {N}_Box{TA}) -> {T}:\n    return b.val\n",
     {"P": "[T: (Copy, Drop)]", "T": "T", "TA": "[T]"},
     [("i", {"T": "int", "TA": ""}, "{N}_Box(5, 1)", ["r"]), ("f", {"T": "float", "TA": ""}, "{N}_Box(2.5, 1)", ["int(r * 2.0)"])]),
    ("natval", "@guppy\ndef {N}{P}(xs: array[int, {n}] @owned, ys: array[int, {m}] @owned) -> int:\n    s = 0\n    for x in xs:\n        s += x\n    for y in ys:\n        s -= y\n    return {n} * 1000 + {m} * 100 + s\n", {"P": "[n: nat, m: nat]", "n": "n", "m": "m"},
     [("23", {"n": "2", "m": "3"}, "array(1, 2), array(3, 4, 5)", ["r"]), ("31", {"n": "3", "m": "1"}, "array(1, 2, 6), array(4)", ["r"])]),
    ("dep", "@guppy\ndef {N}_inner{P}(t: {T}, x: {T} @comptime) -> {T}:\n    return x\n@guppy\ndef {N}{P}(t: {T}, x: {T} @comptime) -> {T}:\n    return {N}_inner(t, x)\n", {"P": "[T: (Copy, Drop)]", "T": "T"},
     [("n", {"T": "nat"}, "nat(1), 5", ["int(r)"]), ("i", {"T": "int"}, "-1, 6", ["r"]), ("f", {"T": "float"}, "0.5, 2.5", ["int(r * 2.0)"])]),
]

def instantiate(tpl, name, binding):
    keys = {"P": "", "Q": "", "K": "", "A": "", "TA": ""}
    keys.update(binding)
    keys["N"] = name
    return tpl.format(**keys)

def build():
    defs, body, pairs = [], [], []
    for name, tpl, gen, specs in FAMILY:
        defs.append(instantiate(tpl, name, gen))
        for sp_ in specs:
            suf, sub, args, rep = sp_[:4]
            gcall = sp_[4] if len(sp_) > 4 else None
            sname = f"{name}_{suf}"
            sub2 = dict(sub)
            for k_ in ("P", "Q"):
                sub2.setdefault(k_, "")
            defs.append(instantiate(tpl, sname, sub2))
            for which, fn in (("g", name), ("s", sname)):
                a = args.replace("{N}", fn)
                body.append(f"r = {fn}({a})" if not (which == "g" and gcall) else "r = " + gcall.replace("{N}", fn))
                for j, ex in enumerate(rep):
                    body.append(f"result('{which}:{name}:{suf}:{j}', {ex})")
            pairs.append((name, suf, len(rep)))
    # struct constructors take the struct of their own version
    return HEAD + "\n".join(defs) + "@guppy\ndef main() -> None:\n" + "\n".join("    " + l for l in body) + "\n", pairs

def run(only=None):
    global FAMILY
    if only is not None:
        FAMILY = [f for f in FAMILY if f[0] == only]
    src, pairs = build()
    d = tempfile.mkdtemp(dir=os.environ.get("TMPDIR", "/var/tmp")); fn = os.path.join(d, "c13_progs.py")
    open(fn, "w").write(src)
    spec = importlib.util.spec_from_file_location("c13_progs", fn); m = importlib.util.module_from_spec(spec); sys.modules["c13_progs"] = m
    try:
        spec.loader.exec_module(m)
        res = m.main.emulator(n_qubits=1).run()
        ent = {t: int(v) for t, v in list(res.results)[0].entries}
    finally:
        shutil.rmtree(d, ignore_errors=True); sys.modules.pop("c13_progs", None)
    bad = []
    n = 0
    for name, suf, k in pairs:
        for j in range(k):
            n += 1
            g, s = ent.get(f"g:{name}:{suf}:{j}"), ent.get(f"s:{name}:{suf}:{j}")
            if g is None or s is None or g != s:
                bad.append({"definition": name, "instance": suf, "component": j, "generic": g, "specialised_copy": s})
    return bad, n, src
'''

DRIVER = r'''
I_ = INPUT
try:
    bad, n, src = run(I_.get("only"))
    print(json.dumps({"violates": bool(bad), "evaluations": n, "witness": bad[0] if bad else None, "detail": bad and f"{bad[0]['definition']}[{bad[0]['instance']}] component {bad[0]['component']}: generic version reports {bad[0]['generic']}, textually specialised copy reports {bad[0]['specialised_copy']}", "more": len(bad)}))
except GuppyError as e:
    print(json.dumps({"violates": None, "error": "the family program was rejected: " + type(e.error).__name__ + ": " + str(getattr(e.error, "rendered_span_label", ""))[:300]}))
'''
