"""Reference semantics shared by the C03 contracts: a statement-level program family, CPython as
the reference, and an evaluator for the CFG objects that the REAL CFGBuilder produces when it is
executed by pyvc.

Observation model.  Programs call `c0()..c3()` (decision oracles) and `e(v)` (effect, returns v).
All oracle calls of one run draw from ONE decision script (a bit string, False when exhausted), so
the scripts of length <= L enumerate every sequence of at most L decisions of any program; a run
that makes more than CALL_LIMIT oracle/effect calls is cut with outcome "limit" on both sides at
the same call.  The outcome of a run is (trace of oracle/effect calls with their values, how it
ended: returned value / unbound variable / limit / other exception type).

Meaning given to a CFG (the contract compile_cfg/compile_bb are checked against separately):
execute the statements of a block in order; a `return` statement ends the run with its value and
the block must be linked to the exit block; otherwise evaluate the branch predicate and continue
with successors[1] if it is true, successors[0] if false; a block without predicate has exactly one
successor; reaching the exit block without `return` returns None.  MakeIter / IterNext (the
desugared `for`) mean iter(v) / "next element and the iterator, or nothing".
"""
import ast
import itertools

CALL_LIMIT = 40
STEP_LIMIT = 600


class Limit(Exception):
    pass


class CfgShapeError(Exception):
    """the CFG is not of the shape the contract gives a meaning to"""


class RT:
    """oracle/effect runtime of one run"""

    def __init__(self, script):
        self.script = list(script)
        self.trace = []
        self.calls = 0

    def _tick(self):
        self.calls += 1
        if self.calls > CALL_LIMIT:
            raise Limit()

    def cond(self, name):
        def c():
            self._tick()
            v = self.script.pop(0) if self.script else False
            self.trace.append((name, v))
            return v
        return c

    def eff(self, v):
        self._tick()
        self.trace.append(("e", v))
        return v

    def globals(self):
        g = {f"c{i}": self.cond(f"c{i}") for i in range(4)}
        g["e"] = self.eff
        g["range"] = range
        g["array"] = lambda *xs: list(xs)
        g["__builtins__"] = {"range": range, "len": len, "int": int, "bool": bool, "abs": abs, "None": None, "True": True, "False": False}
        return g


class _Some:
    def __init__(self, pair):
        self.pair = pair

    def is_some(self):
        return self.pair is not None

    def unwrap(self):
        assert self.pair is not None
        return self.pair

    def unwrap_nothing(self):
        assert self.pair is None


def _make_iter(v):
    return iter(v)


def _iter_next(it_):
    try:
        x = next(it_)
    except StopIteration:
        return _Some(None)
    return _Some((x, it_))


def outcome(fn, rt):
    try:
        v = fn()
        return (tuple(rt.trace), "ret", v)
    except Limit:
        return (tuple(rt.trace), "limit", None)
    except NameError:
        return (tuple(rt.trace), "unbound", None)
    except CfgShapeError:
        raise
    except Exception as ex:  # noqa
        return (tuple(rt.trace), "exc:" + type(ex).__name__, None)


# ------------------------------------------------------------------------------ CPython reference
def py_runner(src):
    """src: `def f(): ...`  ->  function(script) -> outcome"""
    code = compile(src, "<c03-prog>", "exec")

    def run(script):
        rt = RT(script)
        g = rt.globals()
        exec(code, g)
        return outcome(g["f"], rt)
    return run


# ------------------------------------------------------------------------------ CFG evaluator
def _rename(name):
    return name.replace("%", "_pct_")


class _Ren(ast.NodeTransformer):
    def visit_Name(self, n):
        return ast.copy_location(ast.Name(id=_rename(n.id), ctx=n.ctx), n)


def _text(node):
    """source text of a block statement / predicate (expression contexts are irrelevant to the
    compiler under test and are re-derived by parsing the text)"""
    return ast.unparse(ast.fix_missing_locations(_Ren().visit(node)))


def compile_cfg_object(cfg, to_real_ext):
    """cfg: the CFG object built by the real CFGBuilder (pyvc heap objects).  Returns
    function(script) -> outcome.  `to_real_ext(node)` converts an interpreted AST node to a real one
    (custom nodes included)."""
    F = cfg.fields
    entry, exit_ = F["entry_bb"], F["exit_bb"]
    blocks = {}

    def prep(bb):
        k = id(bb)
        if k in blocks:
            return blocks[k]
        ent = {"stmts": [], "pred": None, "succ": bb.fields["successors"], "bb": bb}
        blocks[k] = ent
        for st in bb.fields["statements"]:
            cn = st.cls.name
            if cn == "NestedFunctionDef":
                if "args" not in st.fields:
                    raise CfgShapeError(f"nested function without parameter list (fields {sorted(st.fields)})")
                params = [a.fields["arg"] for a in st.fields["args"].fields["args"]]
                ent["stmts"].append(("def", st.fields["name"], params, st.fields["cfg"]))
                continue
            r = to_real_ext(st)
            if isinstance(r, ast.Return):
                code = None if r.value is None else compile(_text(r.value), "<cfg>", "eval")
                ent["stmts"].append(("return", code))
            elif isinstance(r, ast.stmt):
                ent["stmts"].append(("exec", compile(_text(r), "<cfg>", "exec")))
            else:
                raise CfgShapeError(f"block statement of class {cn}")
        bp = bb.fields["branch_pred"]
        if bp is not None:
            ent["pred"] = compile(_text(to_real_ext(bp)), "<cfg>", "eval")
        return ent

    def run_body(g, loc, rt_steps):
        cur = entry
        while True:
            rt_steps[0] += 1
            if rt_steps[0] > STEP_LIMIT:
                raise Limit()
            if cur is exit_:
                if cur.fields["statements"]:
                    raise CfgShapeError("exit block has statements")
                return None
            ent = prep(cur)
            for st in ent["stmts"]:
                if st[0] == "exec":
                    exec(st[1], g, loc)
                elif st[0] == "return":
                    v = None if st[1] is None else eval(st[1], g, loc)
                    if not (len(ent["succ"]) == 1 and ent["succ"][0] is exit_):
                        raise CfgShapeError("block with a return statement is not linked to the exit block only")
                    if st is not ent["stmts"][-1]:
                        raise CfgShapeError("statements after a return in one block")
                    return v
                else:
                    _, name, params, subcfg = st

                    def fn(*args, params=params, subcfg=subcfg):
                        if len(args) != len(params):
                            raise TypeError("arity")
                        return compile_cfg_object_cached(subcfg)(g, dict(zip(params, args)), rt_steps)
                    loc[name] = fn
            succ = ent["succ"]
            if ent["pred"] is None:
                if len(succ) != 1:
                    raise CfgShapeError(f"{len(succ)} successors without a branch predicate")
                cur = succ[0]
            else:
                if len(succ) != 2:
                    raise CfgShapeError(f"{len(succ)} successors with a branch predicate")
                cur = succ[1] if eval(ent["pred"], g, loc) else succ[0]

    sub_cache = {}

    def compile_cfg_object_cached(subcfg):
        k = id(subcfg)
        if k not in sub_cache:
            sub_cache[k] = compile_cfg_object(subcfg, to_real_ext).__body__
        return sub_cache[k]

    def run(script):
        rt = RT(script)
        g = rt.globals()
        g["__make_iter"] = _make_iter
        g["__iter_next"] = _iter_next
        loc = {}
        return outcome(lambda: run_body(g, loc, [0]), rt)
    run.__body__ = run_body
    # shape errors surface when blocks are prepared: prepare all reachable blocks now
    seen, todo = set(), [entry]
    while todo:
        b = todo.pop()
        if id(b) in seen:
            continue
        seen.add(id(b))
        if b is not exit_:
            prep(b)
        todo.extend(b.fields["successors"])
    return run


def scripts(maxlen):
    for n in range(maxlen + 1):
        for bits in itertools.product((False, True), repeat=n):
            # scripts are padded with False: keep only those not ending in False (canonical)
            if n == 0 or bits[-1]:
                yield bits


# ------------------------------------------------------------------------------ program family
SIMPLE = ["x = x + 1", "y = e(x)", "x += y", "e(x)", "x, y = y, x", "x = 5 if c2() else 7", "x = (y := x + 2) + y", "e(1 if c2() and c3() else 2)",
          "x = e(1) + e(2) * e(3)", "pass", "z = x", "e(z)", "z", "x = g(x)", "z = e(x) < e(y) < e(3)", "x = -x", "y = (x, y)[c3()]"]
CONDS = ["c0()", "not c0()", "c0() and c1()", "c0() or c1()", "x < 3", "c0() if c1() else c2()", "0 < x <= y", "not (c0() or x > 2)", "True", "False",
         "c0() or True", "c0() and False", "False or c1()", "c0() or c1() or True"]


def _ind(lines, n=1):
    return ["    " * n + l for l in lines]


def gen_blocks(depth, in_loop, rng):
    """yields statement-line lists (deterministic pseudo-random sample of the family)"""
    simple = rng.sample(SIMPLE, 3)
    for s in simple:
        yield [s]
    if in_loop:
        yield ["break"]
        yield ["continue"]
        yield [f"if {rng.choice(CONDS[:7])}:", "    break"]
        yield [f"if {rng.choice(CONDS[:7])}:", "    continue", rng.choice(SIMPLE)]
    yield ["return"]
    if depth == 0:
        return
    subs = list(gen_blocks(depth - 1, in_loop, rng))
    lsubs = list(gen_blocks(depth - 1, True, rng))
    pick = lambda xs: rng.choice(xs)  # noqa: E731
    for _ in range(3):
        c = pick(CONDS)
        yield [f"if {c}:"] + _ind(pick(subs))
        yield [f"if {c}:"] + _ind(pick(subs)) + ["else:"] + _ind(pick(subs))
        yield [f"if {c}:"] + _ind(pick(subs)) + [f"elif {pick(CONDS[:7])}:"] + _ind(pick(subs)) + ["else:"] + _ind(pick(subs))
        yield [f"while {pick(CONDS[:8])}:"] + _ind(["e(0)"] + pick(lsubs))
        yield ["while True:"] + _ind(["e(0)"] + pick(lsubs) + [f"if {pick(CONDS[:7])}:", "    break"])
        yield [f"for i in range({pick(['2', '3', 'x', '0'])}):"] + _ind(["e(i)"] + pick(lsubs))
        yield ["for i in array(4, 5, 6):"] + _ind(pick(lsubs) + ["e(i)"])
        yield [f"if {c}:"] + _ind(pick(subs) + pick(subs))


PROLOGUE = ["def g(z: int) -> int:", "    e(z)", "    return z + 1", "x = 0", "y = 1"]
EPILOGUE = ["e(x)", "e(y)"]
FIXED = [
    # hand-written members: every construct of the fragment at least once, unreachable code, jumps out of nested loops
    ["if c0():", "    x = 1", "else:", "    x = 2", "e(x)"],
    ["while c0():", "    x += 1", "    if c1():", "        continue", "    e(x)", "e(x)"],
    ["for i in range(3):", "    if c0():", "        break", "    e(i)", "e(x)"],
    ["for i in range(2):", "    for j in range(2):", "        if c0():", "            break", "        e(j)", "    e(i)"],
    ["while c0():", "    while c1():", "        if c2():", "            return", "        e(1)", "    e(2)"],
    ["return", "e(1)"],
    ["while True:", "    e(0)", "    break", "    e(1)", "e(2)"],
    ["if c0():", "    return", "    e(9)", "e(1)"],
    ["q = 1", "if c0():", "    w = 2", "e(w)"],
    ["w", "w = 1"],
    ["if c0():", "    w = 1", "w", "e(7)"],
    ["x = e(1) if c0() else e(2)", "e(x)"],
    ["if e(1) < e(2) < e(0):", "    e(5)"],
    ["x = (c0() and c1()) or c2()", "e(x)"],
    ["z = c0() or True", "e(z)", "z = c1() and False", "e(z)", "if c2() or c3() or True:", "    e(4)"],
    ["while c0() and False:", "    e(1)", "e(2)"],
    ["xs = array(1, 2, 3)", "xs[e(1)] += e(5)", "e(xs[1])"],
    ["xs = array(1, 2, 3)", "for v in xs:", "    if v == 2:", "        continue", "    e(v)"],
    # nested subscripts with effectful indices: Python evaluates the target's indices left to right, once
    ["m = array(array(1, 2), array(3, 4))", "m[e(1)][e(0)] += e(5)", "e(m[1][0])"],
    ["m = array(array(1, 2), array(3, 4))", "m[e(0)][e(1)] = e(7)", "e(m[0][1])"],
    ["m = array(array(1, 2), array(3, 4))", "m[(x := x + 1)][(x := x - 1)] += 50", "e(m[1][0])"],
    ["m = array(array(1, 2), array(3, 4))", "e(m[e(1)][e(0)] + m[e(0)][e(1)])"],
    ["x = g(g(x))", "e(x)"],
    ["a, (b, c) = 1, (2, 3)", "e(a + b + c)"],
    ["a, *b = array(1, 2, 3)", "e(a)"],
    ["w, *r, y, z = 40, 41, 42, 43, 44", "e(w)", "e(y)", "e(z)"],
    ["t = (1, 2, 3, 4)", "*r, y, z = t", "e(y * 10 + z)", "a, *r2, b, c, d = 5, 6, 7, 8, 9, 10", "e(b * 100 + c * 10 + d)"],
    ["while c0():", "    pass", "e(1)"],
    ["if True:", "    e(1)", "else:", "    e(2)"],
    ["while False:", "    e(1)", "e(2)"],
    ["for i in range(2):", "    continue", "    e(i)", "e(3)"],
    ["x = 1", "while x < 4:", "    x = x * 2", "    e(x)"],
    ["if c0():", "    if c1():", "        x = 1", "    else:", "        return", "else:", "    x = 3", "e(x)"],
    # literals (negated ones are folded by the builder) in every operand position of a chained comparison
    ["if e(-4) <= -3 <= e(5):", "    e(1)", "e(-3)"],
    ["z = x <= -1 <= y", "e(z)", "z = -2 < x < 2", "e(z)", "z = x > -1 >= -1", "e(z)"],
    ["while -1 < x < 2:", "    x += 1", "    e(-x)"],
    ["x = -(-3)", "e(x)", "e(- 2 ** 2)", "e(+1)", "e(not x)", "e(~x)"],
]


def programs(tier):
    import random
    rng = random.Random(20260922)
    out = []
    seen = set()

    def add(body):
        src = "def f():\n" + "\n".join(_ind(PROLOGUE + body + EPILOGUE)) + "\n"
        if src not in seen:
            seen.add(src)
            out.append(src)
    for b in FIXED:
        add(b)
    n_rand = 110 if tier != "thorough" else 900
    blocks = list(gen_blocks(2, False, rng))
    while len(out) < len(FIXED) + n_rand:
        k = rng.choice((1, 2, 2, 3))
        body = []
        for _ in range(k):
            body += rng.choice(blocks)
        add(body)
        if rng.random() < 0.15:
            blocks = list(gen_blocks(2, False, rng))
    return out
