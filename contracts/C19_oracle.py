"""Native oracle for C19 (bounded layer): array programs on the emulator against list semantics.

The contracts of C19 give every array op of the HUGR its documented meaning (an assumption about
hugr / selene).  This layer observes the composition: small Guppy programs over arrays of lengths 1..3
are compiled by the real pipeline and run on the selene emulator, one run per program and index value,
and compared with a ten-line reference: an array is a Python list; `xs[i]` and `xs[i] = v` mean list
indexing for 0 <= i < n and a PANIC for every other i (negative ones included — no wrap-around);
lending the same element of an array of arrays twice in one call is a panic; unpacking (plain and
starred), iteration, comprehensions and copy() see the elements in index order and leave the other
array untouched.  A run that panics where the reference does not (or the other way round), or reports
other values, is a disagreement.
"""
ORACLE = r'''
import guppy_plainbool
import os, sys, tempfile, importlib.util, shutil, json
from guppylang_internals.error import GuppyError

HEAD = """from guppylang import guppy
from guppylang.std.builtins import array, result, owned
"""

def lit(vals):
    return "array(" + ", ".join(map(str, vals)) + ")"

def dump(name, n):
    return [f"result('{name}{k}', {name}[{k}])" for k in range(n)]

# each program: (name, params, body lines, reference(fn of i) -> list of (tag, value) or "PANIC")
def family(sizes=(1, 2, 3)):
    out = []
    for n in sizes:
        base = [10 * (k + 1) for k in range(n)]
        idxs = list(range(-2, n + 2))
        # read
        def ref_read(i, base=base, n=n):
            return "PANIC" if not (0 <= i < n) else [("r", base[i])] + [(f"xs{k}", base[k]) for k in range(n)]
        out.append((f"read{n}", idxs, [f"xs = {lit(base)}", "result('r', xs[i])"] + dump("xs", n), ref_read))
        # write
        def ref_write(i, base=base, n=n):
            if not (0 <= i < n): return "PANIC"
            ys = list(base); ys[i] = 7
            return [(f"xs{k}", ys[k]) for k in range(n)]
        out.append((f"write{n}", idxs, [f"xs = {lit(base)}", "xs[i] = 7"] + dump("xs", n), ref_write))
        # augmented write
        def ref_aug(i, base=base, n=n):
            if not (0 <= i < n): return "PANIC"
            ys = list(base); ys[i] += 5
            return [(f"xs{k}", ys[k]) for k in range(n)]
        out.append((f"aug{n}", idxs, [f"xs = {lit(base)}", "xs[i] += 5"] + dump("xs", n), ref_aug))
        # copy is independent and in order
        def ref_copy(i, base=base, n=n):
            if not (0 <= i < n): return "PANIC"
            ys = list(base); ys[i] = 1
            return [(f"xs{k}", ys[k]) for k in range(n)] + [(f"cs{k}", base[k]) for k in range(n)]
        out.append((f"copy{n}", idxs, [f"xs = {lit(base)}", "cs = xs.copy()", "xs[i] = 1"] + dump("xs", n) + dump("cs", n), ref_copy))
        # iteration and comprehension order
        def ref_iter(i, base=base, n=n):
            return [("it", v) for v in base] + [(f"ys{k}", base[k] * 2 + i) for k in range(n)]
        out.append((f"iter{n}", [0, 3], [f"xs = {lit(base)}", "for v in xs:", "    result('it', v)", f"zs = {lit(base)}", "ys = array(z * 2 + i for z in zs)"] + dump("ys", n), ref_iter))
    # nested arrays: rows are lent, an element write goes to exactly that cell
    def ref_cell(i):
        r, c = i // 10, i % 10
        if not (0 <= r < 2 and 0 <= c < 3): return "PANIC"
        m = [[1, 2, 3], [4, 5, 6]]; m[r][c] = 9
        return [(f"m{a}{b}", m[a][b]) for a in range(2) for b in range(3)]
    out.append(("cell", [0, 2, 10, 12, 3, 20, 13], ["m = array(array(1, 2, 3), array(4, 5, 6))", "m[i // 10][i % 10] = 9"] + [f"result('m{a}{b}', m[{a}][{b}])" for a in range(2) for b in range(3)], ref_cell))
    # lending the same row twice at once
    def ref_twice(i):
        a, b = i // 10, i % 10
        if not (0 <= a < 2 and 0 <= b < 2) or a == b: return "PANIC"
        m = [[1, 2], [3, 4]]
        m[a][0] += m[b][1]
        return [(f"m{x}{y}", m[x][y]) for x in range(2) for y in range(2)]
    out.append(("twice", [1, 10, 0, 11, 2, 20], ["m = array(array(1, 2), array(3, 4))", "addinto(m[i // 10], m[i % 10])"] + [f"result('m{x}{y}', m[{x}][{y}])" for x in range(2) for y in range(2)], ref_twice))
    # unpacking, plain and starred
    def ref_unpack(i):
        return [("a", 10 + i), ("b", 20), ("c", 30), ("h", 10 + i), ("t0", 20), ("t1", 30), ("l", 30), ("f0", 10 + i), ("f1", 20)]
    out.append(("unpack", [0, 4], ["xs = array(10 + i, 20, 30)", "a, b, c = xs", "result('a', a); result('b', b); result('c', c)", "ys = array(10 + i, 20, 30)", "h, *t = ys",
                                   "result('h', h); result('t0', t[0]); result('t1', t[1])", "zs = array(10 + i, 20, 30)", "*f, l = zs", "result('l', l); result('f0', f[0]); result('f1', f[1])"], ref_unpack))
    return out

HELPERS = """
@guppy
def addinto(xs: array[int, 2], ys: array[int, 2]) -> None:
    xs[0] += ys[1]
"""

def run_one(name, body, i):
    src = HEAD + HELPERS + "@guppy\ndef prog(i: int) -> None:\n" + "\n".join("    " + l for l in body) + f"\n@guppy\ndef main() -> None:\n    prog({i})\n"
    d = tempfile.mkdtemp(dir=os.environ.get("TMPDIR", "/var/tmp")); fn = os.path.join(d, "c19_prog.py")
    open(fn, "w").write(src)
    spec = importlib.util.spec_from_file_location("c19_prog", fn); m = importlib.util.module_from_spec(spec); sys.modules["c19_prog"] = m
    try:
        spec.loader.exec_module(m)
        try:
            res = m.main.emulator(n_qubits=1).run()
            return [(t, int(v)) for t, v in list(res.results)[0].entries]
        except GuppyError as e:
            return "REJECTED:" + type(e.error).__name__
        except Exception as ex:
            if "anic" in str(ex) or type(ex).__name__ == "EmulatorError": return "PANIC"
            raise
    finally:
        shutil.rmtree(d, ignore_errors=True); sys.modules.pop("c19_prog", None)
'''

DRIVER = r'''
I_ = INPUT
fam = family(tuple(I_.get("sizes", (1, 2, 3))))
jobs = [(name, body, i, ref) for name, idxs, body, ref in fam for i in idxs]
if I_.get("only"):
    jobs = [j for j in jobs if j[0] == I_["only"]]
jobs = jobs[I_["chunk"]::I_["nchunks"]]
bad = None; n = 0
for name, body, i, ref in jobs:
    got = run_one(name, body, i)
    want = ref(i)
    n += 1
    want_n = want if want == "PANIC" else [(t, int(v)) for t, v in want]
    if got != want_n and bad is None:
        bad = {"program": name, "i": i, "source": body, "detail": f"{name} with i = {i}: emulator {got if isinstance(got, str) else got[:8]} vs list semantics {want_n if isinstance(want_n, str) else want_n[:8]}"}
print(json.dumps({"violates": bad is not None, "evaluations": n, "witness": bad, "detail": bad and bad["detail"]}))
'''
