"""C05 — Side effects happen once each, in Python's evaluation order.

Layers:
 P2  track_hugr_side_effects (compiler/core.py), real code executed by pyvc against a minimal
     Hugr model: for every sequence of node insertions (leaf ops with arbitrary side-effect flags,
     nested dataflow containers) the state-order edges of every dataflow parent form ONE chain
     Input -> e1 -> ... -> ek -> Output over the side-effecting children in insertion order, a
     container counting as side-effecting from its first inner effect on.
 P3  ExprCompiler visit methods for calls, tuples, lists, partial application, barrier, panic:
     the operand expressions are compiled (hence inserted) left to right, callee before
     arguments, arguments before the call op.
 P4  table: result ops, panic, exit, QAlloc, QFree, MeasureFree and every Call/CallIndirect are
     classified as side-effecting by may_have_side_effect.
 B   BOUNDED, whole pipeline: for every expression of a grammar over short-circuit operators,
     chained comparisons, conditional expressions, operators, calls, tuples, subscripts and calls
     through function values, the set of call sequences along the paths of the compiled HUGR
     equals the set of Python evaluation traces (contracts/C05_oracle.py).
Two recorded deviations (known findings) are recognised EXACTLY by a model of the deviation.
"""
import itertools
import json
import z3

from pyvc import SObj, ClassVal, Builtin, SBool, PyRaise, FlagVal
from .common import mk_engine
from .C05_oracle import ORACLE, DRIVER, REPLAY_ONE

TITLE = "state-order chain per dataflow parent in insertion order; operands compiled left to right; compiled call sequences == Python traces (bounded)"
CC = "guppylang_internals.compiler.core"
EC = "guppylang_internals.compiler.expr_compiler"
NCHUNK = 8

KNOWN_EXPR = {"lift": ("n", "n0() + (n1() if b0() else n2())"), "reflect": ("n", "n0() + s0()"), "subscript": ("n", "array(n0(), n1(), n2())[n3()]")}


def run(chk):
    chk.section("side-effect-chain", lambda: p2(chk))
    chk.section("operand-order", lambda: p3(chk))
    chk.section("table", lambda: p4(chk))
    chk.section("branch-builder", lambda: p1(chk))
    for i in range(NCHUNK):
        chk.section(f"bounded-{i}", lambda i=i: bounded(chk, i))
    chk.expected_min_obligations = 40
    chk.assumptions += [
        "HUGR semantics: nodes of one dataflow region connected by state-order edges execute in that order; Conditional/CFG regions execute the selected child region (hugr-py / HUGR specification)",
        "the minimal Hugr model used for track_hugr_side_effects: add_node appends a node with a parent, children() lists children in insertion order with Input, Output first, add_order_link records an edge",
        "insertion sequences of at most 4 nodes per region and one level of nesting are enumerated (lengths are a bound; side-effect flags are enumerated exhaustively)",
        "a container's contents are inserted contiguously (builders finish a nested region before continuing in the parent)",
    ]
    chk.not_covered += ["qubit allocation/measurement ordering relative to other effects beyond the classification table", "comprehensions and loops (TailLoop bodies)",
                        "emulator-level observation of the result stream for this property (C03 and C07 run such programs on the emulator; the C05 oracle reads the HUGR call sequence)"]


# ------------------------------------------------------------------------------ P2
HUGR_SNIPPET = '''
class _Op:
    def __init__(self, kind, effect=False):
        self.kind = kind
        self.effect = effect

class _NodeData:
    def __init__(self, op, parent):
        self.op = op
        self.parent = parent

class MiniHugr:
    def __init__(self):
        self.data = []
        self.links = []
    def add_node(self, op, parent=None, num_outs=None, metadata=None):
        self.data.append(_NodeData(op, parent))
        return len(self.data) - 1
    def __getitem__(self, n):
        return self.data[n]
    def children(self, parent):
        return [i for i, d in enumerate(self.data) if d.parent == parent]
    def add_order_link(self, a, b):
        self.links.append((a, b))

def _scenario(items):
    h = MiniHugr()
    root = h.add_node(FUNCDEFN, None)
    h.add_node(INPUT, root)
    h.add_node(OUTPUT, root)
    order = []
    with track_hugr_side_effects():
        for it in items:
            if it[0] == "leaf":
                order.append(("leaf", h.add_node(it[1], root)))
            else:
                c = h.add_node(it[1], root)
                h.add_node(INPUT, c)
                h.add_node(OUTPUT, c)
                inner = [h.add_node(op, c) for op in it[2]]
                order.append(("box", c, inner))
    return h, root, order

def _scenario2(items):
    """like _scenario, with Conditional / CFG containers whose children are Case / DataflowBlock regions"""
    h = MiniHugr()
    root = h.add_node(FUNCDEFN, None)
    h.add_node(INPUT, root)
    h.add_node(OUTPUT, root)
    order = []
    with track_hugr_side_effects():
        for it in items:
            if it[0] == "leaf":
                order.append(("leaf", h.add_node(it[1], root)))
            else:
                c = h.add_node(it[1], root)
                regions = []
                for regop, leaves in it[2]:
                    r = h.add_node(regop, c)
                    h.add_node(INPUT, r)
                    h.add_node(OUTPUT, r)
                    regions.append((r, [h.add_node(op, r) for op in leaves]))
                order.append(("multi", c, regions))
    return h, root, order
'''


def p2(chk):
    e = mk_engine(chk)
    e.func_info(CC, "track_hugr_side_effects")
    m = e.module(CC)
    OPS = ClassVal("ops_ns", builtin=True)
    kinds = {k: ClassVal(k, builtin=True) for k in ("FuncDefn", "Conditional", "CFG", "Input", "Output", "DFG", "Leaf")}
    ops_ns = SObj(OPS, dict(kinds))

    def mkop(it, kind, effect=False):
        return SObj(kinds[kind], {"kind": kind, "effect": effect})
    e.models[f"{CC}:may_have_side_effect"] = lambda it, a, k: a[0].fields.get("effect", False)
    n_obl = 0
    shapes = []
    for n in range(1, 4):
        for shape in itertools.product(("L", "B1", "B2"), repeat=n):
            if sum(1 if s == "L" else int(s[1]) for s in shape) <= 4:
                shapes.append(shape)
    for shape in shapes:
        nflags = sum(1 if s == "L" else int(s[1]) for s in shape)
        for flags in itertools.product((False, True), repeat=nflags):
            def t(it, shape=shape, flags=flags):
                g = it.ctx.mod_globals(m)
                g["ops"] = ops_ns
                loc = it.exec_snippet(m, HUGR_SNIPPET, {"FUNCDEFN": mkop(it, "FuncDefn"), "INPUT": mkop(it, "Input"), "OUTPUT": mkop(it, "Output")})
                for nm in ("_Op", "_NodeData", "MiniHugr", "FUNCDEFN", "INPUT", "OUTPUT"):
                    g[nm] = loc[nm]
                g["Hugr"] = loc["MiniHugr"]
                fl = iter(flags)
                items = []
                for s in shape:
                    if s == "L":
                        items.append(("leaf", mkop(it, "Leaf", next(fl))))
                    else:
                        items.append(("box", mkop(it, "DFG"), [mkop(it, "Leaf", next(fl)) for _ in range(int(s[1]))]))
                return it.call(loc["_scenario"], [items], {})
            paths = e.explore(t)

            def post(p, shape=shape, flags=flags):
                if p.kind != "return":
                    return z3.BoolVal(False)
                h, root, order = p.value
                links = [tuple(x) for x in h.fields["links"]]
                data = h.fields["data"]

                def kids(parent):
                    return [i for i, d in enumerate(data) if d.fields["parent"] == parent]

                def eff(i):
                    return bool(data[i].fields["op"].fields.get("effect"))
                want = []
                chain = []
                for item in order:
                    if item[0] == "leaf":
                        if eff(item[1]):
                            chain.append(item[1])
                    else:
                        _, c, inner = item
                        inner_eff = [i for i in inner if eff(i)]
                        if inner_eff:
                            chain.append(c)
                            ci, co = kids(c)[0], kids(c)[1]
                            seq = [ci] + inner_eff + [co]
                            want += list(zip(seq, seq[1:]))
                if chain:
                    ri, ro = kids(root)[0], kids(root)[1]
                    seq = [ri] + chain + [ro]
                    want += list(zip(seq, seq[1:]))
                return z3.BoolVal(sorted(links) == sorted(want) and len(set(links)) == len(links))
            nm = ",".join(shape) + ":" + "".join("1" if f else "0" for f in flags)
            chk.prove_paths(f"track_hugr_side_effects[{nm}]:order-edges==one-chain-Input->effects-in-insertion-order->Output-per-region(containers-from-their-first-inner-effect)",
                            paths, post, func=f"{CC}:track_hugr_side_effects")
            n_obl += 1
    # Conditional / CFG containers: an effect inside a Case / DataflowBlock is chained inside that
    # region, the region itself takes no order edge, and the Conditional / CFG node joins the chain
    # of ITS parent (otherwise a panic inside an unused Conditional is dead code for the backend)
    kinds.update({k: ClassVal(k, builtin=True) for k in ("Case", "DataflowBlock")})
    ops_ns.fields.update(kinds)
    n2 = 0
    for ckind, rkind in (("Conditional", "Case"), ("CFG", "DataflowBlock")):
        for pre, post_leaf in itertools.product((None, False, True), repeat=2):
            for flags in itertools.product((False, True), repeat=3):       # region 0 has one leaf, region 1 has two
                def t2(it, ckind=ckind, rkind=rkind, pre=pre, post_leaf=post_leaf, flags=flags):
                    g = it.ctx.mod_globals(m)
                    g["ops"] = ops_ns
                    loc = it.exec_snippet(m, HUGR_SNIPPET, {"FUNCDEFN": mkop(it, "FuncDefn"), "INPUT": mkop(it, "Input"), "OUTPUT": mkop(it, "Output")})
                    for nm in ("_Op", "_NodeData", "MiniHugr", "FUNCDEFN", "INPUT", "OUTPUT"):
                        g[nm] = loc[nm]
                    g["Hugr"] = loc["MiniHugr"]
                    items = []
                    if pre is not None:
                        items.append(("leaf", mkop(it, "Leaf", pre)))
                    items.append(("multi", mkop(it, ckind), [(mkop(it, rkind), [mkop(it, "Leaf", flags[0])]), (mkop(it, rkind), [mkop(it, "Leaf", flags[1]), mkop(it, "Leaf", flags[2])])]))
                    if post_leaf is not None:
                        items.append(("leaf", mkop(it, "Leaf", post_leaf)))
                    return it.call(loc["_scenario2"], [items], {})
                paths = e.explore(t2)

                def post2(p):
                    if p.kind != "return":
                        return z3.BoolVal(False)
                    h, root, order = p.value
                    links = [tuple(x) for x in h.fields["links"]]
                    data = h.fields["data"]
                    kids = lambda parent: [i for i, d in enumerate(data) if d.fields["parent"] == parent]  # noqa: E731
                    eff = lambda i: bool(data[i].fields["op"].fields.get("effect"))  # noqa: E731
                    want, chain = [], []
                    for item in order:
                        if item[0] == "leaf":
                            if eff(item[1]):
                                chain.append(item[1])
                        else:
                            _, c, regions = item
                            any_eff = False
                            for r, leaves in regions:
                                le = [i for i in leaves if eff(i)]
                                if le:
                                    any_eff = True
                                    seq = [kids(r)[0]] + le + [kids(r)[1]]
                                    want += list(zip(seq, seq[1:]))
                            if any_eff:
                                chain.append(c)
                    if chain:
                        seq = [kids(root)[0]] + chain + [kids(root)[1]]
                        want += list(zip(seq, seq[1:]))
                    return z3.BoolVal(sorted(links) == sorted(want) and len(set(links)) == len(links))
                nm = f"{'L' + str(int(pre)) + ',' if pre is not None else ''}{ckind}[{rkind}:{int(flags[0])}|{rkind}:{int(flags[1])}{int(flags[2])}]{',L' + str(int(post_leaf)) if post_leaf is not None else ''}"
                chk.prove_paths(f"track_hugr_side_effects[{nm}]:effects-chained-inside-their-region/\\the-{ckind}-node-joins-its-parent's-chain-iff-some-region-has-an-effect/\\regions-take-no-order-edge",
                                paths, post2, func=f"{CC}:track_hugr_side_effects")
                n2 += 1
    chk.record("track_hugr_side_effects:all-shapes-and-flag-vectors-explored", n_obl >= 60 and n2 >= 100, f"{n_obl}+{n2}", kind="reachability")
    chk.use_engine(e)


# ------------------------------------------------------------------------------ P3
def p3(chk):
    # indices of (nested) subscript places: compiled once, innermost first (shared with C19)
    from .C19 import place_indices
    place_indices(chk, require_order=True)
    e = mk_engine(chk)
    for q in ("ExprCompiler.visit_Tuple", "ExprCompiler.visit_List", "ExprCompiler.visit_LocalCall", "ExprCompiler.visit_GlobalCall",
              "ExprCompiler._compile_call_args", "ExprCompiler.visit_PartialApply", "ExprCompiler.visit_BarrierExpr", "ExprCompiler.visit_PanicExpr"):
        e.func_info(EC, q)
    m = e.module(EC)
    TYM = "guppylang_internals.tys.ty"

    def setup(it, nargs, comptime=()):
        EC_cls = it.lookup_global(m, "ExprCompiler")
        IF = it.lookup_global(e.module(TYM), "InputFlags")
        log = []
        kids = [SObj(ClassVal("Expr", builtin=True), {"i": i}) for i in range(nargs + 1)]
        nof, cpt = it.getattr(IF, "NoFlags"), it.getattr(IF, "Comptime")
        FT = it.lookup_global(e.module(TYM), "FunctionType")       # the real class (isinstance checks), fields supplied directly
        fty = SObj(FT, {"inputs": [SObj(ClassVal("FuncInput", builtin=True), {"flags": cpt if i in comptime else nof, "ty": "T"}) for i in range(nargs)],
                        "output": "OUT", "to_hugr": Builtin("to_hugr", lambda *a: "HUGR_FTY"),
                        "instantiate": Builtin("instantiate", lambda *a: fty_box[0])})
        fty_box = [fty]

        def visit(x):
            log.append(("visit", x))
            return ("wire", x)

        def add_op(op, *wires):
            log.append(("op", op, wires))
            return ()          # a node without output wires (callers slice it)
        builder = SObj(ClassVal("Builder", builtin=True), {"add_op": Builtin("add_op", add_op)})
        self_ = SObj(EC_cls, {"visit": Builtin("visit", visit), "dfg": SObj(ClassVal("DFC", builtin=True), {"builder": builder}),
                              "ctx": SObj(ClassVal("Ctx", builtin=True), {})})
        return self_, kids, fty, log
    e.models["guppylang_internals.ast_util:get_type"] = lambda it, a, k: it.ctx.ghost["fty"]
    e.models["guppylang_internals.tys.ty:type_to_row"] = lambda it, a, k: []
    e.models[f"{EC}:ExprCompiler._update_inout_ports"] = lambda it, a, k: None
    e.models[f"{EC}:ExprCompiler._pack_returns"] = lambda it, a, k: "PACKED"
    e.models[f"{EC}:ExprCompiler._pack_tuple"] = lambda it, a, k: it.ctx.ghost.setdefault("packed", list(a[1])) and "TUPLE"
    e.models["guppylang_internals.std._internal.compiler.list:list_new"] = lambda it, a, k: it.ctx.ghost.setdefault("packed", list(a[2])) and "LIST"
    e.models["guppylang_internals.tys.builtin:get_element_type"] = lambda it, a, k: SObj(ClassVal("Ty", builtin=True), {"to_hugr": Builtin("to_hugr", lambda *x: "H")})
    e.ext_models["hugr.ops.CallIndirect"] = lambda it, a, k: "CallIndirect"
    e.global_presets = {(EC, "PartialOp"): SObj(ClassVal("PartialOpNS", builtin=True), {"from_closure": Builtin("from_closure", lambda *a: "PartialOp")})}

    def visits(log):
        return [x[1] for x in log if x[0] == "visit"]

    def ops_after_all_visits(log):
        kinds = [x[0] for x in log]
        return "op" not in kinds or kinds.index("op") > max([i for i, k in enumerate(kinds) if k == "visit"], default=-1)

    for n in range(0, 4):
        # tuples and lists: elements left to right
        for meth, field in (("visit_Tuple", "elts"), ("visit_List", "elts")):
            def t(it, n=n, meth=meth, field=field):
                self_, kids, fty, log = setup(it, n)
                it.ctx.ghost["fty"] = SObj(ClassVal("Ty", builtin=True), {})
                node = SObj(ClassVal("Node", builtin=True), {field: kids[:n]})
                it.call_method(self_, meth, [node])
                return log, kids[:n]
            chk.prove_paths(f"ExprCompiler.{meth}[{n}]:elements-compiled-left-to-right-each-once", e.explore(t),
                            lambda p: z3.BoolVal(p.kind == "return" and visits(p.value[0]) == p.value[1]), func=f"{EC}:ExprCompiler.{meth}")
        # calls through a function value: callee, then arguments, then the call
        for comptime in ([()] + ([(0,)] if n >= 1 else []) + ([(1,)] if n >= 2 else [])):
            def t(it, n=n, comptime=comptime):
                self_, kids, fty, log = setup(it, n, comptime)
                it.ctx.ghost["fty"] = fty
                node = SObj(ClassVal("LocalCall", builtin=True), {"func": kids[n], "args": kids[:n]})
                it.call_method(self_, "visit_LocalCall", [node])
                return log, [kids[n]] + [k for i, k in enumerate(kids[:n]) if i not in comptime]
            chk.prove_paths(f"ExprCompiler.visit_LocalCall[{n} args,comptime={list(comptime)}]:callee-then-arguments-left-to-right-then-CallIndirect", e.explore(t),
                            lambda p: z3.BoolVal(p.kind == "return" and visits(p.value[0]) == p.value[1] and ops_after_all_visits(p.value[0])),
                            func=f"{EC}:ExprCompiler.visit_LocalCall", replay=lambda m_: {"script": ORACLE + REPLAY_ONE, "input": {"kind": "n", "expr": "p1()(n0(), n1())"}})

            def t2(it, n=n, comptime=comptime):
                self_, kids, fty, log = setup(it, n, comptime)
                it.ctx.ghost["fty"] = fty
                return it.call_method(self_, "_compile_call_args", [kids[:n], fty]), [("wire", k) for i, k in enumerate(kids[:n]) if i not in comptime], log
            chk.prove_paths(f"ExprCompiler._compile_call_args[{n},comptime={list(comptime)}]:non-comptime-arguments-left-to-right-each-once", e.explore(t2),
                            lambda p: z3.BoolVal(p.kind == "return" and list(p.value[0]) == p.value[1] and visits(p.value[2]) == [w[1] for w in p.value[1]]),
                            func=f"{EC}:ExprCompiler._compile_call_args")
        # barrier / partial application
        def t3(it, n=n):
            self_, kids, fty, log = setup(it, n)
            it.ctx.ghost["fty"] = fty
            node = SObj(ClassVal("PartialApply", builtin=True), {"func": kids[n], "args": kids[:n]})
            it.call_method(self_, "visit_PartialApply", [node])
            return log, [kids[n]] + kids[:n]
        chk.prove_paths(f"ExprCompiler.visit_PartialApply[{n}]:function-then-arguments-left-to-right-then-op", e.explore(t3),
                        lambda p: z3.BoolVal(p.kind == "return" and visits(p.value[0]) == p.value[1] and ops_after_all_visits(p.value[0])), func=f"{EC}:ExprCompiler.visit_PartialApply")
    # global calls: arguments, then the callee's compile_call
    for n in range(0, 4):
        def t4(it, n=n):
            self_, kids, fty, log = setup(it, n)
            it.ctx.ghost["fty"] = fty
            CCD = it.lookup_global(m, "CompiledCallableDef")
            rets = SObj(ClassVal("Rets", builtin=True), {"inout_returns": [], "regular_returns": []})
            func = SObj(CCD, {"ty": fty, "compile_call": Builtin("compile_call", lambda args, *rest: log.append(("op", "compile_call", tuple(args))) or rets)})
            self_.fields["ctx"].fields["build_compiled_def"] = Builtin("bcd", lambda *a: (func, []))
            node = SObj(ClassVal("GlobalCall", builtin=True), {"def_id": "D", "type_args": [], "args": kids[:n]})
            it.call_method(self_, "visit_GlobalCall", [node])
            return log, kids[:n]
        chk.prove_paths(f"ExprCompiler.visit_GlobalCall[{n}]:arguments-left-to-right-each-once-then-the-call", e.explore(t4),
                        lambda p: z3.BoolVal(p.kind == "return" and visits(p.value[0]) == p.value[1] and ops_after_all_visits(p.value[0])
                                             and [x for x in p.value[0] if x[0] == "op"][-1][2] == tuple(("wire", k) for k in p.value[1])),
                        func=f"{EC}:ExprCompiler.visit_GlobalCall")
    chk.use_engine(e)


# ------------------------------------------------------------------------------ P1
def p1(chk):
    """BranchBuilder (cfg/builder.py) on every branching expression of a grammar (and / or / not /
    conditional expressions / comparisons and chained comparisons over call atoms, nesting depth 2):
    the real builder is executed by pyvc; the CFG fragment it produces is evaluated for EVERY
    valuation of the atoms (statements of a block in order, then its predicate, then the false/true
    successor) and compared with CPython's own evaluation of the expression: same truth value,
    same sequence of atom evaluations (each atom at most once, only those Python evaluates)."""
    import ast as _ast
    from pyvc.astmodel import to_real
    from .common import ast_from_source
    B = "guppylang_internals.cfg.builder"
    e = mk_engine(chk)
    for q in ("BranchBuilder.visit_BoolOp", "BranchBuilder.visit_UnaryOp", "BranchBuilder.visit_Compare", "BranchBuilder.visit_IfExp", "BranchBuilder.generic_visit",
              "BranchBuilder.visit_Constant", "BranchBuilder.add_branch", "ExprBuilder.build", "ExprBuilder.generic_visit", "ExprBuilder.visit_IfExp"):
        e.func_info(B, q)
    e.global_presets = {(B, "tmp_vars"): [f"%tmp{i}" for i in range(400)]}
    e.models[f"{B}:is_comptime_expression"] = lambda it, a, k: None

    def exprs():
        Bs = [f"b{i}()" for i in range(4)]
        Ns = [f"n{i}()" for i in range(4)]

        def gen(depth, pb, pn):
            if pb:
                yield pb[0], pb[1:], pn
            if len(pn) >= 2:
                yield f"{pn[0]} < {pn[1]}", pb, pn[2:]
            if len(pn) >= 3:
                yield f"{pn[0]} < {pn[1]} <= {pn[2]}", pb, pn[3:]
            if len(pn) >= 4:
                yield f"{pn[0]} < {pn[1]} <= {pn[2]} != {pn[3]}", pb, pn[4:]
            if depth == 0:
                return
            for l, pb1, pn1 in gen(depth - 1, pb, pn):
                yield f"not ({l})", pb1, pn1
                for r, pb2, pn2 in gen(depth - 1, pb1, pn1):
                    yield f"({l}) and ({r})", pb2, pn2
                    yield f"({l}) or ({r})", pb2, pn2
                    for x, pb3, pn3 in gen(0, pb2, pn2):
                        yield f"({r}) if ({l}) else ({x})", pb3, pn3
        seen = []
        for ex, _, _ in gen(2, Bs, Ns):
            if ex not in seen:
                seen.append(ex)
        return seen
    all_ex = exprs()
    if chk.tier != "thorough":
        all_ex = [x for i, x in enumerate(all_ex) if i < 60 or i % 9 == 0]
    else:
        all_ex = [x for i, x in enumerate(all_ex) if i < 200 or i % 3 == 0]
    # literal operands in every position (the builder folds constants; an operand BEFORE a deciding
    # literal must still be evaluated, one AFTER it must not)
    all_ex += ["b0() and True", "b0() and False", "b0() or True", "b0() or False", "True and b0()", "False and b0()", "True or b0()", "False or b0()",
               "b0() or b1() or True", "b0() and b1() and False", "b0() or True or b1()", "(b0() and False) or b1()", "not (b0() or True)", "b1() if (b0() or True) else b2()",
               "(n0() < n1()) and True", "((n0() < n1()) or True) and b0()", "b0() and (True or b1())", "(b0() if b1() else b2()) and False", "True", "False", "not False"]
    import itertools as _it
    import re as _re
    n_ok = 0
    for ex in all_ex:
        def t(it, ex=ex):
            m = e.module(B)
            it.ctx.mod_globals(m)["tmp_vars"] = [f"%tmp{i}" for i in range(60)]     # a fresh supply of temporary names per run
            CFG = it.lookup_global(e.module("guppylang_internals.cfg.cfg"), "CFG")
            BBu = it.lookup_global(m, "BranchBuilder")
            cfg = it.call(CFG, [], {})
            bb = it.call_method(cfg, "new_bb", [])
            tb, fb = it.call_method(cfg, "new_bb", []), it.call_method(cfg, "new_bb", [])
            node = ast_from_source(it, ex, "eval").fields["body"]
            it.call(it.getattr(BBu, "add_branch"), [node, cfg, bb, tb, fb], {})
            return bb, tb, fb
        paths = e.explore(t)

        def post(p, ex=ex):
            if p.kind != "return":
                return z3.BoolVal(False)
            bb0, tb, fb = p.value
            atoms = sorted(set(_re.findall(r"\b([bn]\d)\(\)", ex)))
            doms = [([True, False] if a[0] == "b" else [0, 1, 2]) for a in atoms]
            for vals in _it.product(*doms):
                def env_for(trace):
                    return {a: (lambda a=a, v=v: (trace.append(a), v)[1]) for a, v in zip(atoms, vals)}
                t_py = []
                want = bool(eval(ex, env_for(t_py)))
                t_cfg = []
                env = env_for(t_cfg)
                cur, steps = bb0, 0
                while cur is not tb and cur is not fb:
                    steps += 1
                    if steps > 50:
                        return z3.BoolVal(False)
                    for st in cur.fields["statements"]:
                        r = to_real(st)
                        if not (isinstance(r, _ast.Assign) and len(r.targets) == 1 and isinstance(r.targets[0], _ast.Name)):
                            return z3.BoolVal(False)
                        env[r.targets[0].id.replace("%", "_")] = eval(compile(_ast.fix_missing_locations(_ast.Expression(_rename(r.value))), "<cfg>", "eval"), env)
                    succ = cur.fields["successors"]
                    pred = cur.fields["branch_pred"]
                    if pred is None:
                        if len(succ) != 1:
                            return z3.BoolVal(False)
                        cur = succ[0]
                    else:
                        v = eval(compile(_ast.fix_missing_locations(_ast.Expression(_rename(to_real(pred)))), "<cfg>", "eval"), env)
                        if len(succ) != 2:
                            return z3.BoolVal(False)
                        cur = succ[1] if v else succ[0]          # successors = [false branch, true branch]
                if (cur is tb) != want or t_cfg != t_py:
                    return z3.BoolVal(False)
            return z3.BoolVal(True)
        chk.prove_paths(f"BranchBuilder[{ex}]:for-every-valuation-the-CFG-fragment-reaches-the-branch-Python-takes-evaluating-exactly-Python's-atom-sequence", paths, post,
                        func=f"{B}:BranchBuilder.add_branch", replay=lambda m_, ex=ex: {"script": ORACLE + REPLAY_ONE, "input": {"kind": "b", "expr": ex}})
        n_ok += 1
    chk.record("BranchBuilder:expressions-explored", n_ok >= 60, str(n_ok), kind="reachability")
    chk.use_engine(e)


def _rename(node):
    """temporaries are called %tmpN: not a Python identifier, rename for evaluation"""
    import ast as _ast
    for n in _ast.walk(node):
        if isinstance(n, _ast.Name):
            n.id = n.id.replace("%", "_")
            n.ctx = _ast.Load()          # the builder stores the class ast.Load, not an instance
    return node


# ------------------------------------------------------------------------------ P4
def p4(chk):
    import ast
    e = mk_engine(chk)
    e.func_info(CC, "may_have_side_effect")
    m = e.module(CC)
    src = None
    for n in ast.walk(m.tree):
        if isinstance(n, (ast.Assign, ast.AnnAssign)) and "EXTENSION_OPS_WITH_SIDE_EFFECTS" in ast.unparse(n.targets[0] if isinstance(n, ast.Assign) else n.target):
            src = ast.unparse(n.value)
    need = ["RESULT_EXTENSION.operations.values()", "PRELUDE.get_op('panic')", "PRELUDE.get_op('exit')", "QUANTUM_EXTENSION.get_op('QAlloc')",
            "QUANTUM_EXTENSION.get_op('QFree')", "QUANTUM_EXTENSION.get_op('MeasureFree')"]
    for item in need:
        chk.record(f"EXTENSION_OPS_WITH_SIDE_EFFECTS contains {item}", src is not None and item in src, (src or "")[:200], func=f"{CC}:EXTENSION_OPS_WITH_SIDE_EFFECTS", backend="binding-table")
    f = m.find("may_have_side_effect")
    body = ast.unparse(f) if f else ""
    chk.record("may_have_side_effect: every Call and CallIndirect is side-effecting", "case ops.Call() | ops.CallIndirect():\n            return True" in body, body[:300],
               func=f"{CC}:may_have_side_effect", backend="structural")
    chk.record("may_have_side_effect: extension ops are looked up in EXTENSION_OPS_WITH_SIDE_EFFECTS by qualified name",
               "ext_op.op_def().qualified_name() in EXTENSION_OPS_WITH_SIDE_EFFECTS" in body, "", func=f"{CC}:may_have_side_effect", backend="structural")


# ------------------------------------------------------------------------------ bounded
def bounded(chk, i):
    from pyvc.report import run_replay
    res = run_replay(ORACLE + DRIVER, {"tier": chk.tier, "chunk": i, "nchunks": NCHUNK}, chk.repo, timeout=6000)
    if "evaluations" not in res:
        chk.undecided(f"bounded[{i}/{NCHUNK}]:expressions", "oracle run failed: " + json.dumps(res)[:500])
        return
    w = res.get("witness")
    o = chk.bounded_result(f"bounded[{i}/{NCHUNK}]:HUGR-call-sequences==Python-evaluation-traces(slice {i} of {NCHUNK}; {res['total']} expressions)",
                           not res.get("violates"), res["evaluations"], detail=res.get("detail") or f"{res['evaluations']} expressions compiled and compared, {res['rejected']} rejected by the checker",
                           witness=w, func="guppylang_internals.cfg.builder:BranchBuilder")
    if w:
        o.replay.update({"script": ORACLE + REPLAY_ONE, "input": {"kind": w["kind"], "expr": w["expr"]}})
    for kid, hit in (res.get("known") or {}).items():
        k = chk.bounded_result(f"known-deviation[{kid}]:{hit['expr']}", False, 1, detail=hit["detail"], witness=hit, func="guppylang_internals.cfg.builder:ExprBuilder")
        k.replay.update({"script": ORACLE + REPLAY_ONE, "input": {"kind": KNOWN_EXPR[kid][0], "expr": hit["expr"]}})
