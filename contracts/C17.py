"""C17 — Integer literals are range-checked and preserved exactly.

Functions under contract: expr_checker._int_bounds_check, python_value_to_guppy_type (int, tuple
and list arms), _python_list_to_guppy_type; cfg.builder.ExprBuilder.visit_UnaryOp (negative
literal folding); expr_compiler.python_value_to_hugr (int arm); arithmetic.UnsignedIntVal
(__post_init__, to_value); NumericType.INT_WIDTH.  The integer is a mathematical z3 Int.
"""
import z3

from pyvc import SInt, SObj, SBool, ClassVal
from .common import mk_engine, zbool, zint, model_val, ast_from_source

TITLE = "int/nat literal range checks and constant payloads for every Python integer"
EC = "guppylang_internals.checker.expr_checker"
IMIN, IMAX, NMAX = -(1 << 63), (1 << 63) - 1, (1 << 64) - 1

REPLAY_TY = r'''
import ast
from guppylang_internals.checker.expr_checker import python_value_to_guppy_type
from guppylang_internals.tys.builtin import nat_type, int_type, frozenarray_type
from guppylang_internals.error import GuppyError
I = INPUT
node = ast.parse("x").body[0].value
node.file, node.source, node.line_offset = "<verif>", "x", 1
hint = {"nat": nat_type(), "int": int_type(), "none": None, "nat_list": frozenarray_type(nat_type(), len(I["value"]) if isinstance(I["value"], list) else 0)}[I["hint"]]
v = I["value"]
if I.get("tuple"): v = tuple(v)
try:
    ty = python_value_to_guppy_type(v, node, None, hint)
    got = "accept:" + str(ty)
except GuppyError as e:
    got = "reject"
def in_int(n): return -(1<<63) <= n <= (1<<63)-1
def in_nat(n): return 0 <= n <= (1<<64)-1
vals = v if isinstance(v, (list, tuple)) else [v]
if I["hint"] in ("nat", "nat_list"):
    ok = all(in_nat(n) if n >= 0 else in_int(n) for n in vals)
else:
    ok = all(in_int(n) for n in vals)
print(json.dumps({"violates": (got != "reject") != ok, "observed": got, "required": "accept" if ok else "reject", "value": str(I["value"])}))
'''


REPLAY_PARTIAL = r'''
import ast
from guppylang_internals.checker.expr_checker import python_value_to_guppy_type
from guppylang_internals.tys.builtin import nat_type
from guppylang_internals.tys.ty import TupleType, ExistentialTypeVar, NumericType
from guppylang_internals.error import GuppyError
I = INPUT
node = ast.parse("x").body[0].value
node.file, node.source, node.line_offset = "<verif>", "x", 1
x0, x1 = I["value"]
hint = TupleType([nat_type(), ExistentialTypeVar.fresh("T", True, True)])
try:
    ty = python_value_to_guppy_type((x0, x1), node, None, hint)
    got = "accept:" + str(ty)
    k0 = ty.element_types[0].kind.name
except GuppyError as e:
    got, k0 = "reject", None
in_int = lambda n: -(1 << 63) <= n <= (1 << 63) - 1
ok = (0 <= x0 <= (1 << 64) - 1 or in_int(x0)) and in_int(x1)
want0 = None if not ok else ("Nat" if x0 >= 0 else "Int")
print(json.dumps({"violates": (got != "reject") != ok or k0 != want0, "observed": got, "required": ("accept with first component " + str(want0)) if ok else "reject", "value": str(I["value"]), "hint": "tuple[nat, ?T]"}))
'''


REPLAY_TUPLE_LEN = r'''
import tempfile, importlib.util, os, sys, shutil
from guppylang_internals.error import GuppyError
src = """from guppylang import guppy
from guppylang.std.builtins import comptime
@guppy
def longer() -> tuple[int, int]:
    return comptime((1, 2, 3))
@guppy
def shorter() -> tuple[int, int, int]:
    return comptime((1, 2))
"""
d = tempfile.mkdtemp(dir=os.environ.get("TMPDIR", "/var/tmp")); fn = os.path.join(d, "replay_c17t.py"); open(fn, "w").write(src)
spec = importlib.util.spec_from_file_location("replay_c17t", fn); m = importlib.util.module_from_spec(spec); sys.modules["replay_c17t"] = m
spec.loader.exec_module(m)
res = {}
for name in ("longer", "shorter"):
    try:
        getattr(m, name).compile_function(); res[name] = "accepted"
    except GuppyError as ex:
        res[name] = "rejected:" + type(ex.error).__name__
    except Exception as ex:
        res[name] = "crash:" + type(ex).__name__ + ": " + str(ex)[:80]
shutil.rmtree(d, ignore_errors=True)
print(json.dumps({"violates": any(not v.startswith("rejected") for v in res.values()), "observed": res, "required": "a comptime tuple of another length than the annotated type is a type error"}))
'''


def node_stub(it):
    return ast_from_source(it, "x", "eval").fields["body"]


def constant_payload_obligations(chk, e, v, in_nat, in_int, tag=""):
    """python_value_to_hugr / UnsignedIntVal: an int / nat constant reaches the HUGR with exactly its
    value at log-width 6 (shared with C04: operators applied to compile-time constants)."""
    # ---- constant payload: python_value_to_hugr(int) carries exactly v at width 6
    from .bindings import rec
    e.ext_models["hugr.std.int.IntVal"] = rec("IntVal")
    e.ext_models["hugr.val.Extension"] = rec("Extension")
    e.ext_models["hugr.std.int.int_t"] = rec("int_t")
    chk.assumptions.append("hugr.std.int.IntVal(v, width) / hugr.val.Extension(name, typ, val) are external constructors modelled as records: the obligation is what /repo passes to them")
    for kind in ("Nat", "Int"):
        def t_h(it, kind=kind):
            m = e.module("guppylang_internals.compiler.expr_compiler")
            tm = e.module("guppylang_internals.tys.ty")
            NT = it.lookup_global(tm, "NumericType")
            ty = it.call(NT, [it.getattr(it.getattr(NT, "Kind"), kind)], {})
            it.ctx.assume(in_nat if kind == "Nat" else in_int)  # established by the checker (above)
            r = it.call(it.lookup_global(m, "python_value_to_hugr"), [SInt(v), ty, None], {})
            if isinstance(r, SObj) and r.cls.name == "UnsignedIntVal":
                return r, it.call_method(r, "to_value", [])
            return r, None
        paths = e.explore(t_h)

        def post_h(p, kind=kind):
            if p.kind != "return":
                return z3.BoolVal(False)
            r, tv = p.value
            if isinstance(r, SObj) and r.cls.name == "IntVal":
                # hugr's IntVal(a, width): the constant with the two's-complement bit pattern of a; the
                # constant written is v, so a must be v itself or its signed / unsigned alias
                a = r.fields["args"]
                w = r.fields.get("width", a[1] if len(a) > 1 else None)
                a0 = zint(a[0])
                same_bits = z3.Or(a0 == v, a0 == v - (1 << 64), a0 == v + (1 << 64))
                return z3.And(same_bits if kind == "Nat" else a0 == v, a0 >= IMIN, a0 <= NMAX, z3.BoolVal(w == 6))
            if kind == "Int" or not (isinstance(r, SObj) and r.cls.name == "UnsignedIntVal"):
                return z3.BoolVal(False)
            payload = tv.fields.get("val")
            return z3.And(zint(r.fields["v"]) == v, z3.BoolVal(r.fields["width"] == 6),
                          z3.BoolVal(tv.fields["args"][0] == "ConstInt"),
                          zint(payload["value"]) == v, z3.BoolVal(payload["log_width"] == 6))
        chk.prove_paths(f"{tag}python_value_to_hugr(int,{kind}):payload==v/\\log_width==6", paths, post_h,
                        func="guppylang_internals.compiler.expr_compiler:python_value_to_hugr")



def run(chk):
    e = mk_engine(chk)
    for q in ("_int_bounds_check", "python_value_to_guppy_type", "_python_list_to_guppy_type"):
        e.func_info(EC, q)
    e.func_info("guppylang_internals.cfg.builder", "ExprBuilder.visit_UnaryOp")
    e.func_info("guppylang_internals.compiler.expr_compiler", "python_value_to_hugr")
    e.func_info("guppylang_internals.std._internal.compiler.arithmetic", "UnsignedIntVal")
    v = z3.Int("v")
    in_int = z3.And(v >= IMIN, v <= IMAX)
    in_nat = z3.And(v >= 0, v <= NMAX)

    # ---- _int_bounds_check
    for signed in (True, False):
        def t(it, signed=signed):
            m = e.module(EC)
            return it.call(it.lookup_global(m, "_int_bounds_check"), [SInt(v), node_stub(it), signed], {})
        paths = e.explore(t)
        rng = in_int if signed else in_nat

        def post(p, rng=rng, signed=signed):
            if p.kind == "raise":
                err = p.value.fields.get("error")
                under = err.fields.get("is_underflow") if isinstance(err, SObj) else None
                lo = IMIN if signed else 0
                return z3.And(z3.Not(rng), z3.BoolVal(p.raised(e, "GuppyTypeError")),
                              zbool(under) == (v < lo) if under is not None else z3.BoolVal(False))
            return z3.And(rng, z3.BoolVal(p.value is None))
        chk.prove_paths(f"_int_bounds_check(signed={signed}):raises<=>out-of-range", paths, post, func=EC + ":_int_bounds_check",
                        replay=lambda m, signed=signed: {"script": REPLAY_TY, "input": {"hint": "int" if signed else "nat", "value": model_val(m, v)}})
        chk.record(f"_int_bounds_check(signed={signed}):both-outcomes-reachable", {p.kind for p in paths} == {"raise", "return"},
                   str(sorted({p.kind for p in paths})), kind="reachability")

    # ---- python_value_to_guppy_type on an int, every hint
    def kind_of(ty):
        if isinstance(ty, SObj) and ty.cls.name == "NumericType":
            return ty.fields["kind"].name
        return None if ty is None else "other"
    for hint in ("nat", "int", "float", "none"):
        def t(it, hint=hint):
            m = e.module(EC)
            h = None if hint == "none" else it.call(it.lookup_global(m, hint + "_type"), [], {})
            return it.call(it.lookup_global(m, "python_value_to_guppy_type"), [SInt(v), node_stub(it), None, h], {})
        paths = e.explore(t)

        def post(p, hint=hint):
            if p.kind == "raise":
                if not p.raised(e, "GuppyTypeError"):
                    return z3.BoolVal(False)
                return z3.Not(z3.And(in_nat, True) if False else (z3.And(v >= 0, in_nat) if hint == "nat" else in_int)) if hint != "nat" else \
                    z3.Or(z3.And(v >= 0, z3.Not(in_nat)), z3.And(v < 0, z3.Not(in_int)))
            k = kind_of(p.value)
            if k == "Nat":
                return z3.And(z3.BoolVal(hint == "nat"), in_nat)
            if k == "Int":
                return z3.And(in_int, z3.BoolVal(True) if hint != "nat" else v < 0)
            return z3.BoolVal(False)
        chk.prove_paths(f"python_value_to_guppy_type(int,hint={hint}):nat<=>hint-nat/\\0<=v<2^64;int<=>in-int64;else-reject", paths, post,
                        func=EC + ":python_value_to_guppy_type",
                        replay=lambda m, hint=hint: {"script": REPLAY_TY, "input": {"hint": hint if hint in ("nat", "int") else "none", "value": model_val(m, v)}})

    # ---- containers: every element is range-checked (tuple and list constants)
    e.models["guppylang_internals.tys.builtin:frozenarray_type"] = lambda it, a, k: SObj(ClassVal("frozenarray_type"), {"elem": a[0], "len": a[1]})
    chk.assumptions.append("frozenarray_type(elem, n) is modelled as the record (elem, n) [tys/builtin.py, covered by C14/C31]")
    xs = [z3.Int(f"x{i}") for i in range(3)]
    for n in (2, 3):
        for shape in ("list", "tuple"):
            def t(it, n=n, shape=shape):
                m = e.module(EC)
                vals = [SInt(x) for x in xs[:n]]
                val = vals if shape == "list" else tuple(vals)
                return it.call(it.lookup_global(m, "python_value_to_guppy_type"), [val, node_stub(it), None, None], {})
            paths = e.explore(t)
            allin = z3.And(*[z3.And(x >= IMIN, x <= IMAX) for x in xs[:n]])

            def post(p, allin=allin):
                if p.kind == "raise":
                    return z3.And(z3.Not(allin), z3.BoolVal(p.raised(e, "GuppyTypeError")))
                return z3.And(allin, z3.BoolVal(p.value is not None))
            chk.prove_paths(f"python_value_to_guppy_type({shape}-of-{n}-ints):accepted<=>every-element-in-int64", paths, post,
                            func=EC + ":_python_list_to_guppy_type" if shape == "list" else EC + ":python_value_to_guppy_type",
                            replay=lambda m, n=n, shape=shape: {"script": REPLAY_TY, "input": {"hint": "none", "tuple": shape == "tuple",
                                                                                               "value": [model_val(m, x) for x in xs[:n]]}})

    # ---- a hint that is only partly known (tuple[nat, ?T], the parameter type of a generic callee
    # before its variables are solved) is still honoured where it is known: the nat component is typed
    # nat over [0, 2^64-1], the undetermined one falls back to the default int over int64
    def t_partial(it):
        m = e.module(EC)
        tm = e.module("guppylang_internals.tys.ty")
        ex = it.call(it.getattr(it.lookup_global(tm, "ExistentialTypeVar"), "fresh"), ["T", True, True], {})
        hint = it.call(it.lookup_global(tm, "TupleType"), [[it.call(it.lookup_global(m, "nat_type"), [], {}), ex]], {})
        return it.call(it.lookup_global(m, "python_value_to_guppy_type"), [(SInt(xs[0]), SInt(xs[1])), node_stub(it), None, hint], {})
    paths = e.explore(t_partial)
    x0_nat, x1_int = z3.And(xs[0] >= 0, xs[0] <= NMAX), z3.And(xs[1] >= IMIN, xs[1] <= IMAX)
    x0_int = z3.And(xs[0] >= IMIN, xs[0] <= IMAX)

    def post_partial(p):
        ok = z3.And(z3.Or(x0_nat, x0_int), x1_int)
        if p.kind == "raise":
            return z3.And(z3.Not(ok), z3.BoolVal(p.raised(e, "GuppyTypeError")))
        ty = p.value
        if not (isinstance(ty, SObj) and ty.cls.name == "TupleType"):
            return z3.BoolVal(False)
        k0, k1 = (kind_of(t) for t in ty.fields["element_types"])
        return z3.And(ok, z3.BoolVal(k1 == "Int"), x0_nat if k0 == "Nat" else z3.And(z3.BoolVal(k0 == "Int"), xs[0] < 0))
    chk.prove_paths("python_value_to_guppy_type((x0,x1),hint=tuple[nat,?T]):x0-typed-nat<=>0<=x0<2^64;x1-int", paths, post_partial,
                    func=EC + ":python_value_to_guppy_type",
                    replay=lambda m: {"script": REPLAY_PARTIAL, "input": {"value": [model_val(m, xs[0]), model_val(m, xs[1])]}})

    # ---- a tuple hint of another LENGTH is an invalid hint and is ignored: the constant keeps every component
    # (its type then simply does not match; dropping a component would hand a shorter type to python_value_to_hugr)
    for n_val, n_hint in ((3, 2), (2, 3), (1, 2), (2, 0)):
        def t_len(it, n_val=n_val, n_hint=n_hint):
            m = e.module(EC)
            tm = e.module("guppylang_internals.tys.ty")
            hint = it.call(it.lookup_global(tm, "TupleType"), [[it.call(it.lookup_global(m, "nat_type"), [], {}) for _ in range(n_hint)]], {})
            it.ctx.assume(z3.And(*[z3.And(x >= 0, x <= IMAX) for x in xs[:n_val]]))
            return it.call(it.lookup_global(m, "python_value_to_guppy_type"), [tuple(SInt(x) for x in xs[:n_val]), node_stub(it), None, hint], {})
        chk.prove_paths(f"python_value_to_guppy_type({n_val}-tuple,hint={n_hint}-tuple):every-component-typed(hint-of-another-length-ignored)", e.explore(t_len),
                        lambda p, n_val=n_val: z3.BoolVal(p.kind == "return" and isinstance(p.value, SObj) and p.value.cls.name == "TupleType" and len(p.value.fields["element_types"]) == n_val
                                                          and all(kind_of(t_) == "Int" for t_ in p.value.fields["element_types"])),
                        func=EC + ":python_value_to_guppy_type", replay=lambda m_: {"script": REPLAY_TUPLE_LEN, "input": {}})

    # ---- negative literal folding: USub(Constant(v)) -> Constant(-v), nothing else folded
    def t_fold(it):
        m = e.module("guppylang_internals.cfg.builder")
        EB = it.lookup_global(m, "ExprBuilder")
        u = ast_from_source(it, "-5", "eval").fields["body"]
        u.fields["operand"].fields["value"] = SInt(v)
        return it.call_method(SObj(EB, {}), "visit_UnaryOp", [u]), u
    paths = e.explore(t_fold)

    def post_fold(p):
        if p.kind != "return":
            return z3.BoolVal(False)
        r, u = p.value
        if not (isinstance(r, SObj) and r.cls.name == "Constant"):
            return z3.BoolVal(False)
        return zint(r.fields["value"]) == -v
    chk.prove_paths("ExprBuilder.visit_UnaryOp:USub(Constant(v))|->Constant(-v)", paths, post_fold,
                    func="guppylang_internals.cfg.builder:ExprBuilder.visit_UnaryOp")

    constant_payload_obligations(chk, e, v, in_nat, in_int)

    # ---- literals survive CFG construction: the real CFGBuilder/ExprBuilder/BranchBuilder executed on
    # programs that put literals (negated ones are folded in place by ExprBuilder.visit_UnaryOp) in
    # every syntactic position; the constant that reaches the basic blocks must be the source literal
    # (shared machinery of C03: the CFG is executed against CPython for every decision sequence)
    from . import C03 as C3
    LITS = [1, 3, 2 ** 31, 2 ** 63 - 1, 2 ** 63, 2 ** 64 - 1, 7919]
    progs = []
    for k in LITS:
        body = [f"e(-{k})", f"e({k})", f"x = -{k}", "e(x)", f"e(-(-{k}))", f"e(-{k} < x)", f"e(x < -{k})", f"e(y <= -{k} <= x)", f"e(-{k} <= x <= {k})",
                f"e(y > x >= -{k})", f"e((-{k} if c0() else {k}) + 1)", f"e(c0() and -{k} < y)", f"e(-{k} <= -{k} <= -{k})",
                f"if x == -{k}:", f"    e(g(-{k}))", f"while y < -{k} < y:", "    e(0)", f"x += -{k}", "e(x)", f"e((-{k}, {k})[0])"]
        progs.append("def f():\n" + "\n".join("    " + l for l in C3.S.PROLOGUE + body + C3.S.EPILOGUE) + "\n")
    e2 = C3.cfg_engine(chk)
    n = C3.cfg_obligations(chk, e2, list(enumerate(progs)), 2, what="every-literal-reaches-the-blocks-with-its-source-value(negation-folded-exactly-once)")
    chk.record("literal-family:programs-explored", n == len(LITS), str(n), kind="reachability")
    chk.use_engine(e2)

    chk.must_fail("twin:int-range-is-not-everything", [], in_int)
    chk.expected_min_obligations = 25
    chk.not_covered += ["that the emulator prints the constant (needs HUGR/selene semantics): payload equality is what is proved",
                        "comptime expressions other than int/tuple/list constants"]
    chk.use_engine(e)
    chk.section("reported-values", lambda: reported_values(chk))


REPLAY_REPORT = r'''
import guppy_plainbool
import tempfile, importlib.util, os, sys, shutil
I = INPUT
v, ty, how = I["value"], I["type"], I["how"]
stmt = {"literal": f"result('v', {v})", "variable": f"x: {ty} = {v}\n    result('v', x)", "computed": f"x: {ty} = {v}\n    y = x + 0\n    result('v', y)",
        "comptime": f"x: {ty} = comptime({v})\n    result('v', x)"}[how]
src = f"""from guppylang import guppy
from guppylang.std.builtins import result, nat, comptime
@guppy
def main() -> None:
    {stmt}
"""
d = tempfile.mkdtemp(dir=os.environ.get("TMPDIR", "/var/tmp")); fn = os.path.join(d, "replay_c17r.py"); open(fn, "w").write(src)
spec = importlib.util.spec_from_file_location("replay_c17r", fn); m = importlib.util.module_from_spec(spec); sys.modules["replay_c17r"] = m
spec.loader.exec_module(m)
got = [int(x) for t, x in list(m.main.emulator(n_qubits=1).run().results)[0].entries]
shutil.rmtree(d, ignore_errors=True)
print(json.dumps({"violates": got != [v], "evaluations": 1, "observed": got, "required": [v], "detail": f"{v} at type {ty} ({how}): the program reports {got}"}))
'''


def reported_values(chk):
    """BOUNDED: "the compiled program observes exactly that value when reporting": boundary values at int and nat,
    reported directly, through an annotated variable, after a computation, and as a comptime value."""
    import json
    from pyvc.report import run_replay
    cases = [(v, "int", how) for v in (0, -1, IMAX, IMIN) for how in ("literal", "variable", "computed", "comptime")] + \
            [(v, "nat", how) for v in (0, 5, IMAX, IMAX + 1, NMAX) for how in ("literal", "variable", "computed", "comptime")]
    if chk.tier != "thorough":
        cases = [c for c in cases if c[0] in (IMIN, IMAX, IMAX + 1, NMAX, 5)]
    for v, ty, how in cases:
        res = run_replay(REPLAY_REPORT, {"value": v, "type": ty, "how": how}, chk.repo, timeout=600)
        name = f"bounded:reported[{v} at {ty}, {how}]:the-program-reports-exactly-the-value"
        if "evaluations" not in res:
            chk.undecided(name, "oracle run failed: " + json.dumps(res)[:500])
            continue
        o = chk.bounded_result(name, not res.get("violates"), 1, detail=res.get("detail"), witness={"observed": res.get("observed")} if res.get("violates") else None,
                               func="guppylang.std.platform:result")
        if res.get("violates"):
            o.replay.update({"script": REPLAY_REPORT, "input": {"value": v, "type": ty, "how": how}})

