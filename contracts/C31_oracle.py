"""Native oracle for C31 (bounded layer): print / parse round trip on the real code.

A pool of type annotations in Guppy's own syntax (all nestings up to a depth over numeric types,
None, bool, str, qubit, tuples of 0..3 elements, array, list, a struct and a generic struct) is
parsed by the real annotation parser (module 1).  Each parsed type is printed with str(), the
printed strings are used as annotations of a second module, parsed again and compared with the
original type objects.
"""
ORACLE = r'''
import itertools, os, sys, tempfile, importlib.util, shutil, json
from guppylang_internals.engine import ENGINE
from guppylang_internals.error import GuppyError

PRE = """from guppylang import guppy
from guppylang.std.builtins import array, nat, comptime
from guppylang.std.quantum import qubit
"""
DEFS = """@guppy.struct
class S:
    a: int
@guppy.struct
class G[T]:
    a: T
@guppy.struct
class H[T, n: nat]:
    a: array[T, n]
@guppy.struct
class F[x: float, b: bool]:
    a: int
"""

def pool(depth):
    atoms = ["int", "nat", "float", "bool", "None", "str", "qubit", "S"]
    cur = list(atoms)
    allt = list(atoms)
    for _ in range(depth):
        nxt = []
        nxt.append("tuple[()]")
        for a in cur:
            nxt += [f"tuple[{a}]", f"array[{a}, 2]", f"list[{a}]", f"G[{a}]", f"H[{a}, 3]"]
        for a in cur[:5]:
            # boundary sizes: the empty and the one-element array
            nxt += [f"array[{a}, 0]", f"array[{a}, 1]", f"H[{a}, 0]"]
            # the same sizes written as comptime expressions (a different parser path; they PRINT as literals)
            nxt += [f"array[{a}, comptime(0)]", f"array[{a}, comptime(1 + 1)]"]
        small = cur[:6] + cur[-3:]
        for a, b in itertools.product(small, repeat=2):
            nxt.append(f"tuple[{a}, {b}]")
        for a in small[:4]:
            nxt.append(f"tuple[{a}, int, {a}]")
        cur = [t for t in dict.fromkeys(nxt)]
        allt += cur
    # a generic struct with float and bool const parameters (an int-typed or negative constant has no annotation
    # syntax at all — such types only arise by inference — and is outside "parses back as an annotation")
    allt += ["F[1.5, True]", "F[0.0, False]", "array[F[2.5, True], 2]", "tuple[int, F[0.5, False]]"]
    return list(dict.fromkeys(allt))

def has_one_tuple(annotation):
    """recorded deviation: the type contains a 1-tuple, printed `(T)` without the trailing comma"""
    import ast as _a
    for n in _a.walk(_a.parse(annotation, mode="eval")):
        if isinstance(n, _a.Subscript) and isinstance(n.value, _a.Name) and n.value.id == "tuple":
            if not isinstance(n.slice, _a.Tuple) or len(n.slice.elts) == 1:
                return True
    return False

def sole_tuple_argument(printed):
    """recorded deviation: `G[(a, b)]` / `G[(a,)]` / `G[()]` — a tuple printed as the ONLY argument
    of a subscript is, for Python's grammar, the argument list itself"""
    i = printed.find("[(")
    while i != -1:
        depth = 0
        for j in range(i + 1, len(printed)):
            if printed[j] == "(": depth += 1
            elif printed[j] == ")":
                depth -= 1
                if depth == 0:
                    if printed[j + 1: j + 2] == "]": return True
                    break
        i = printed.find("[(", i + 1)
    return False

def load(name, src, d):
    fn = os.path.join(d, name + ".py"); open(fn, "w").write(src)
    spec = importlib.util.spec_from_file_location(name, fn); m = importlib.util.module_from_spec(spec); sys.modules[name] = m
    spec.loader.exec_module(m)
    return m

def parsed_input_type(f):
    return ENGINE.get_parsed(f.id).ty.inputs[0].ty

def run_pool(anns):
    d = tempfile.mkdtemp(dir=os.environ.get("TMPDIR", "/var/tmp"))
    sys.path.insert(0, d)
    out = []
    try:
        m1 = load("c31_mod1", PRE + DEFS + "\n".join(f"@guppy.declare\ndef f{i}(x: '{a}') -> None: ...\n" for i, a in enumerate(anns)), d)
        tys, strs = [], []
        for i, a in enumerate(anns):
            try:
                t = parsed_input_type(getattr(m1, f"f{i}")); tys.append(t); strs.append(str(t))
            except GuppyError as e:
                tys.append(None); strs.append(None)
        src2 = PRE + "from c31_mod1 import S, G, H, F\n" + "\n".join(
            f"@guppy.declare\ndef g{i}(x: {s!r}) -> None: ...\n" for i, s in enumerate(strs) if s is not None)
        m2 = load("c31_mod2", src2, d)
        for i, (a, t, s) in enumerate(zip(anns, tys, strs)):
            if t is None:
                out.append((a, None, "skipped (annotation rejected)")); continue
            try:
                t2 = parsed_input_type(getattr(m2, f"g{i}"))
                out.append((a, s, None if t2 == t else f"`{s}` reads back as `{t2}` ({t2!r}), printed from {t!r}"))
            except GuppyError as e:
                out.append((a, s, f"`{s}` is rejected as an annotation: {type(e.error).__name__}"))
            except Exception as e:
                out.append((a, s, f"`{s}` cannot be parsed: {e!r}"[:200]))
    finally:
        sys.path.remove(d); shutil.rmtree(d, ignore_errors=True)
        for k in ("c31_mod1", "c31_mod2"): sys.modules.pop(k, None)
    return out
'''

DRIVER = r'''
I_ = INPUT
anns = pool(I_["depth"])
if I_.get("limit"): anns = anns[: I_["limit"]]
mine = anns[I_["chunk"]::I_["nchunks"]]
res = run_pool(mine)
bad = None; judged = 0; known = None; known1 = None
for a, s, msg in res:
    if msg is not None and msg.startswith("skipped"): continue
    judged += 1
    if msg is None: continue
    if has_one_tuple(a):
        known1 = known1 or {"annotation": a, "printed": s, "detail": msg[:300]}
        continue
    if sole_tuple_argument(s):
        known = known or {"annotation": a, "printed": s, "detail": msg[:300]}
        continue
    if bad is None: bad = {"annotation": a, "printed": s, "detail": msg}
print(json.dumps({"violates": bad is not None, "evaluations": judged, "total": len(anns), "witness": bad, "detail": bad and bad["detail"], "known": known, "known_one_tuple": known1}))
'''

REPLAY_ONE = r'''
res = run_pool([INPUT["annotation"]])
a, s, msg = res[0]
print(json.dumps({"violates": msg is not None and not msg.startswith("skipped"), "annotation": a, "printed": s, "detail": msg}))
'''
