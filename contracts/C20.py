"""C20 — Quantum operations implement their documented gates.

What a contract can reach here is the BINDING between the Guppy library and the tket operations
(the emulator that realises those operations is an external binary):
  T1  for every gate function of guppylang.std.quantum / std.qsystem, the matrix in its docstring
      (parsed from the LaTeX, exactly, with sympy) equals the matrix of the tket operation the
      function is bound to (assumed table of the tket ops, first qubit most significant), with the
      qubit parameters in the documented order — constant gates and, for rotations, as functions
      of theta = pi * halfturns.  Up to global phase where the statement allows it.
  T2  RotationCompiler (real code, pyvc with a recording builder): the angle's halfturns reach the
      operation unchanged (UnpackTuple -> from_halfturns_unchecked -> op), qubits in argument
      order, qubits handed back in order.
  T3  composite gates written in Guppy (ch, zz_max, qsystem phased_x/zz_phase/rz): the recorded gate
      sequence multiplies to the documented matrix (sympy, up to global phase) / forwards the
      angle in radians and the qubits in order.
  T4  angle arithmetic (std/angles.py) is arithmetic on halfturns.
"""
import ast
import re
import z3
import sympy as sp

from pyvc import SObj, ClassVal, Builtin, SInt
from .common import mk_engine

TITLE = "gate bindings: documented matrix == matrix of the bound tket operation; rotation angles forwarded unchanged; composite gates multiply to the documented matrix"
QM = "guppylang.std.quantum"
QS = "guppylang.std.qsystem"
QC = "guppylang_internals.std._internal.compiler.quantum"
AN = "guppylang.std.angles"

th, th1, th2 = sp.symbols("theta theta_1 theta_2", real=True)
I = sp.I


def _ctrl(u):
    n = u.shape[0]
    m = sp.eye(2 * n)
    m[n:, n:] = u
    return m


def tket_table():
    """ASSUMED semantics of the tket operations (first qubit argument = most significant bit)."""
    s2 = 1 / sp.sqrt(2)
    H = sp.Matrix([[1, 1], [1, -1]]) * s2
    X = sp.Matrix([[0, 1], [1, 0]])
    Y = sp.Matrix([[0, -I], [I, 0]])
    Z = sp.Matrix([[1, 0], [0, -1]])
    S = sp.diag(1, I)
    T = sp.diag(1, sp.exp(I * sp.pi / 4))
    V = sp.Matrix([[1, -I], [-I, 1]]) * s2
    rz = lambda t: sp.diag(sp.exp(-I * t / 2), sp.exp(I * t / 2))
    rx = lambda t: sp.Matrix([[sp.cos(t / 2), -I * sp.sin(t / 2)], [-I * sp.sin(t / 2), sp.cos(t / 2)]])
    ry = lambda t: sp.Matrix([[sp.cos(t / 2), -sp.sin(t / 2)], [sp.sin(t / 2), sp.cos(t / 2)]])
    tof = sp.eye(8)
    tof[6, 6] = tof[7, 7] = 0
    tof[6, 7] = tof[7, 6] = 1
    zz = lambda t: sp.diag(sp.exp(-I * t / 2), sp.exp(I * t / 2), sp.exp(I * t / 2), sp.exp(-I * t / 2))
    return {"H": H, "X": X, "Y": Y, "Z": Z, "S": S, "T": T, "V": V, "Sdg": S.H, "Tdg": T.H, "Vdg": V.H,
            "CX": _ctrl(X), "CY": _ctrl(Y), "CZ": _ctrl(Z), "Toffoli": tof,
            "Rz": rz(th), "Rx": rx(th), "Ry": ry(th), "CRz": _ctrl(rz(th)),
            "PhasedX": rz(th2) * rx(th1) * rz(-th2), "ZZPhase": zz(th), "ZZMax": zz(sp.pi / 2), "CH": _ctrl(H)}, {"rz": rz, "rx": rx, "ry": ry, "zz": zz}


def latex_matrix(doc):
    """the matrix of a docstring's `.. math::` block as a sympy Matrix (None if there is none)"""
    if "\\begin{pmatrix}" not in doc:
        return None
    head, rest = doc.split("\\begin{pmatrix}", 1)
    body = rest.split("\\end{pmatrix}", 1)[0]
    pre = head.rsplit("=", 1)[-1].replace("&", "").strip()
    rows = [r for r in body.replace("\n", " ").split("\\\\") if r.strip()]
    m = sp.Matrix([[latex_expr(c) for c in r.split("&")] for r in rows])
    return m * (latex_expr(pre) if pre else 1)


def latex_expr(s):
    s = s.strip()
    s = s.replace("\\theta_1", " theta_1 ").replace("\\theta_2", " theta_2 ").replace("\\theta", " theta ").replace("\\pi", " pi ")
    s = s.replace("\\cos", " cos").replace("\\sin", " sin").replace("\\big", "")

    def braces(s, i):
        depth, j = 0, i
        while True:
            if s[j] == "{":
                depth += 1
            elif s[j] == "}":
                depth -= 1
                if depth == 0:
                    return s[i + 1:j], j + 1
            j += 1
    out, i = "", 0
    while i < len(s):
        if s.startswith("\\frac", i):
            a, j = braces(s, i + 5)
            b, k = braces(s, j)
            out += f"(({latex_expr_str(a)})/({latex_expr_str(b)}))"
            i = k
        elif s.startswith("\\sqrt", i):
            a, j = braces(s, i + 5)
            out += f"sqrt({latex_expr_str(a)})"
            i = j
        elif s.startswith("e^", i):
            a, j = braces(s, i + 2)
            out += f"exp({latex_expr_str(a)})"
            i = j
        else:
            out += s[i]
            i += 1
    return _sympify(out)


def latex_expr_str(s):
    return str(latex_expr(s)).replace("I", "I")


def _sympify(txt):
    from sympy.parsing.sympy_parser import parse_expr, standard_transformations, implicit_multiplication_application
    txt = re.sub(r"(?<![A-Za-z_])i(?![A-Za-z_])", "I", txt)
    return parse_expr(txt, local_dict={"theta": th, "theta_1": th1, "theta_2": th2, "pi": sp.pi, "I": sp.I, "exp": sp.exp, "cos": sp.cos, "sin": sp.sin, "sqrt": sp.sqrt},
                      transformations=standard_transformations + (implicit_multiplication_application,))


def equal_up_to_phase(a, b, allow_phase):
    if a.shape != b.shape:
        return False
    d = sp.simplify(a - b)
    if d == sp.zeros(*a.shape):
        return True
    if not allow_phase:
        return False
    # find a non-zero entry and compare after dividing out the phase
    for i in range(a.rows):
        for j in range(a.cols):
            if sp.simplify(b[i, j]) != 0:
                ph = sp.simplify(a[i, j] / b[i, j])
                return sp.simplify(sp.Abs(ph)) == 1 and sp.simplify(a - ph * b) == sp.zeros(*a.shape)
    return False


def bindings(tree):
    """(function name, bound op, [parameter names]) for hugr_op(quantum_op(..)) / RotationCompiler(..) bindings"""
    out = []
    for n in tree.body:
        if isinstance(n, ast.FunctionDef):
            for d in n.decorator_list:
                src = ast.unparse(d)
                m = re.search(r"quantum_op\('(\w+)'", src) or re.search(r"RotationCompiler\('(\w+)'\)", src)
                if m and (src.startswith("hugr_op") or src.startswith("custom_function(RotationCompiler")):
                    out.append((n.name, m.group(1), [a.arg for a in n.args.args], ast.get_docstring(n) or ""))
    return out


def run(chk):
    chk.section("functional-wrappers", lambda: functional_wrappers(chk))
    chk.section("documented-matrices", lambda: t1(chk))
    chk.section("rotation-compiler", lambda: t2(chk))
    chk.section("composite-gates", lambda: t3(chk))
    chk.section("angles", lambda: t4(chk))
    for i in range(NCH_B):
        chk.section(f"bounded-{i}", lambda i=i: t5(chk, i))
    chk.expected_min_obligations = 30
    chk.assumptions += [
        "ASSUMED table of tket operation semantics (H, X, Y, Z, S, T, V and adjoints, CX, CY, CZ, Toffoli, Rz, Rx, Ry, CRz in half-turns; qsystem PhasedX, ZZPhase, Rz in radians), first qubit argument most significant",
        "the emulator / hardware realises those operations (external)",
        "sympy's exact simplification decides the matrix identities",
    ]
    chk.not_covered += ["measure() on the emulator (its tket op cannot be lowered in this sandbox): bound op only", 
                        "circuits of more than one library gate on the emulator beyond the preparation layer (composition is matrix multiplication)"]


NCH_B = 8
ANGLES = [0.25, -0.6, 1.0, 2.3]


def t5(chk, i):
    """BOUNDED: emulated state == documented matrix applied to the listed qubits (C20_oracle.py)"""
    import json
    from pyvc.report import run_replay
    from .C20_oracle import ORACLE, DRIVER
    e = mk_engine(chk)
    gates = []
    for modname, prefix in ((QM, ""), (QS, "qsystem.")):
        m = e.module(modname)
        for node in m.tree.body:
            if not isinstance(node, ast.FunctionDef) or node.name.startswith("_"):
                continue
            doc = ast.get_docstring(node) or ""
            try:
                mat = latex_matrix(doc)
            except Exception:  # noqa
                mat = None
            if mat is None:
                continue
            params = [a.arg for a in node.args.args]
            angs = [p_ for p_ in params if p_.startswith("angle")]
            nq = len(params) - len(angs)
            if 2 ** nq != mat.shape[0] or len(angs) > 2 or params[:nq] != [p_ for p_ in params if not p_.startswith("angle")]:
                continue
            syms = [th] if len(angs) == 1 else [th1, th2]
            vals = [[v] for v in ANGLES] if len(angs) == 1 else [[a, b] for a in ANGLES[:3] for b in ANGLES[1:]] if angs else [[]]
            for val in vals:
                num = mat.subs({sy: v * sp.pi for sy, v in zip(syms, val)}, simultaneous=True)
                gates.append({"name": prefix + node.name, "nq": nq, "angles": list(val),
                              "matrix": [[[float(sp.re(sp.N(c, 30))), float(sp.im(sp.N(c, 30)))] for c in num.row(r)] for r in range(num.rows)]})
    # the functional wrappers of std.quantum: same documented matrices, functional call syntax (two angles / inputs less)
    fm = e.module("guppylang.std.quantum.functional")
    fnames = {n_.name for n_ in fm.tree.body if isinstance(n_, ast.FunctionDef)}
    extra = []
    for g in gates:
        if "." not in g["name"] and g["name"] in fnames and (not g["angles"] or g["angles"][0] in (ANGLES[0], ANGLES[3])):
            extra.append({**g, "name": "qf." + g["name"]})
    gates += extra
    chk.record(f"bounded[{i}/{NCH_B}]:gate-functions-with-a-documented-matrix", len({g["name"] for g in gates}) >= 22, str(sorted({g["name"] for g in gates})), kind="reachability")
    res = run_replay(ORACLE + DRIVER, {"gates": gates, "chunk": i, "nchunks": NCH_B}, chk.repo, timeout=6000)
    if "evaluations" not in res:
        chk.undecided(f"bounded[{i}/{NCH_B}]:circuits", "oracle run failed: " + json.dumps(res)[:800])
        return
    w = res.get("witness")
    o = chk.bounded_result(f"bounded[{i}/{NCH_B}]:emulated-state==documented-matrix-on-the-listed-qubits(up-to-global-phase; slice {i} of {NCH_B})", not res.get("violates"), res["evaluations"],
                           detail=res.get("detail") or f"{res['evaluations']} circuits (gate x qubit order x angle x input state; reset / project_z as projections) agree with the documented matrices", witness=w,
                           func=f"{QM}:std.quantum")
    if w:
        o.replay.update({"script": ORACLE + DRIVER, "input": {"gates": [g for g in gates if g["name"] == w["gate"] and g["angles"] == w["angles"]] or gates[:1], "chunk": 0, "nchunks": 1}})


def t1(chk):
    e = mk_engine(chk)
    table, _ = tket_table()
    n = 0
    for modname in (QM, QS):
        m = e.module(modname)
        for name, op, params, doc in bindings(m.tree):
            mat = None
            try:
                mat = latex_matrix(doc)
            except Exception as ex:  # noqa
                chk.undecided(f"{modname}.{name}:docstring-matrix-parsed", repr(ex)[:200])
                continue
            if mat is None:
                continue          # no documented matrix (allocation, measurement, …)
            e.func_info(modname, name)
            want = table.get(op)
            ok = want is not None and equal_up_to_phase(mat, want, allow_phase=True)
            chk.record(f"{modname.split('.')[-1]}.{name}:documented-matrix==matrix-of-bound-op({op})-up-to-global-phase", bool(ok),
                       f"documented {mat.tolist()} vs {op}: {want.tolist() if want is not None else 'unknown op'}"[:600], func=f"{modname}:{name}", backend="sympy (exact)")
            n += 1
            qubits = [p for p in params if p not in ("angle", "angle1", "angle2")]
            chk.record(f"{modname.split('.')[-1]}.{name}:qubit-parameters-in-documented-order", qubits in (["q"], ["control", "target"], ["control1", "control2", "target"], ["q1", "q2"]), str(params),
                       func=f"{modname}:{name}", backend="binding-table")
    # gates written in Guppy: their documented matrix against the operation (sequence) their body is proved to emit (T3)
    for modname, fname, key in ((QM, "ch", "CH"), (QS, "phased_x", "PhasedX"), (QS, "zz_phase", "ZZPhase"), (QS, "zz_max", "ZZMax"), (QS, "rz", "Rz")):
        node = e.module(modname).find(fname)
        try:
            mat = latex_matrix(ast.get_docstring(node) or "")
        except Exception as ex:  # noqa
            chk.undecided(f"{modname}.{fname}:docstring-matrix-parsed", repr(ex)[:200])
            continue
        ok = mat is not None and equal_up_to_phase(mat, table[key], allow_phase=True)
        chk.record(f"{modname.split('.')[-1]}.{fname}:documented-matrix==matrix-of({key})-up-to-global-phase", bool(ok), f"documented {mat.tolist() if mat is not None else None}"[:500],
                   func=f"{modname}:{fname}", backend="sympy (exact)")
        n += 1
    chk.record("documented-matrices:gate-functions-found", n >= 23, str(n), kind="reachability")
    chk.use_engine(e)


def t2(chk):
    e = mk_engine(chk)
    e.func_info(QC, "RotationCompiler.compile_with_inouts")
    m = e.module(QC)
    for opname, nq in (("Rz", 1), ("Rx", 1), ("Ry", 1), ("CRz", 2)):
        def t(it, opname=opname, nq=nq):
            RC = it.lookup_global(m, "RotationCompiler")
            log = []

            def add_op(op, *wires):
                log.append((op, wires))
                if op[0] == "UnpackTuple":
                    return [("halfturns-of", wires[0])]
                if op[0] == "from_halfturns_unchecked":
                    return [("rotation", wires[0])]
                return [("q'", k) for k in range(len(wires) - 1)]
            bfields = {"add_op": Builtin("add_op", add_op)}
            for extra in ("load", "add_const", "add", "call", "load_function", "add_load_const"):
                # any other way of putting a node into the graph is recorded as an op as well
                bfields[extra] = Builtin(extra, lambda *a, extra=extra, **k: (log.append(((extra,) + tuple(map(str, a)), ())), [("wire-of", extra)])[1][0])
            self_ = SObj(RC, {"opname": opname, "builder": SObj(ClassVal("B", builtin=True), bfields), "ctx": "CTX"})
            qs = [("q", k) for k in range(nq)]
            g = it.ctx.mod_globals(m)
            opsf = {"UnpackTuple": Builtin("UnpackTuple", lambda tys: ("UnpackTuple",))}
            for extra in ("ExtOp", "Const", "Noop", "Tag", "MakeTuple", "Custom"):
                opsf[extra] = Builtin(extra, lambda *a, extra=extra, **k: (extra,) + tuple(map(str, a)))
            g["ops"] = SObj(ClassVal("opsns", builtin=True), opsf)
            g["FLOAT_OPS_EXTENSION"] = SObj(ClassVal("Ext", builtin=True), {"get_op": Builtin("get_op", lambda n: ("float-op", n))})
            g["FloatVal"] = Builtin("FloatVal", lambda v: ("FloatVal", v))
            g["from_halfturns_unchecked"] = Builtin("fhu", lambda: ("from_halfturns_unchecked",))
            g["ht"] = SObj(ClassVal("ht", builtin=True), {"Qubit": "Q", "FunctionType": Builtin("FT", lambda a, b: ("FT", tuple(a), tuple(b)))})
            g["ROTATION_T"], g["FLOAT_T"] = "ROT", "F64"
            r = it.call_method(self_, "compile_with_inouts", [qs + ["ANGLE"]])
            return log, r.fields["regular_returns"], r.fields["inout_returns"]
        e.models["guppylang_internals.std._internal.util:quantum_op"] = lambda it, a, k: Builtin("qop", lambda ty, args, ctx, nm=a[0]: ("quantum_op", nm, ty))
        paths = e.explore(t)

        def post(p, opname=opname, nq=nq):
            if p.kind != "return":
                return z3.BoolVal(False)
            log, reg, ino = p.value
            qs = tuple(("q", k) for k in range(nq))
            ok = len(log) == 3 and log[0] == (("UnpackTuple",), ("ANGLE",)) and log[1] == (("from_halfturns_unchecked",), (("halfturns-of", "ANGLE"),))
            ok = ok and log[2][0][:2] == ("quantum_op", opname) and log[2][1] == qs + (("rotation", ("halfturns-of", "ANGLE")),)
            ok = ok and log[2][0][2] == ("FT", tuple(["Q"] * nq + ["ROT"]), tuple(["Q"] * nq))
            ok = ok and reg == [] and ino == [("q'", k) for k in range(nq)]
            return z3.BoolVal(bool(ok))
        chk.prove_paths(f"RotationCompiler[{opname}]:halfturns-of-the-angle-reach-the-op-unchanged/\\qubits-in-argument-order/\\qubits-handed-back-in-order", paths, post,
                        func=f"{QC}:RotationCompiler.compile_with_inouts")
    chk.use_engine(e)


class Ang:
    """exact angle in half-turns (specification-side arithmetic for recorded calls)"""

    def __init__(self, h):
        self.h = sp.nsimplify(h)


def t3(chk):
    e = mk_engine(chk)
    table, fam = tket_table()

    def record(modname, fname, params):
        """run the real Guppy function body, recording the gate calls it makes"""
        m = e.module(modname)
        node = m.find(fname)
        calls = []
        AC = ClassVal("angle", builtin=True)

        def mk_angle(h):
            o = SObj(AC, {"h": sp.nsimplify(h)})
            o.fields["__neg__"] = Builtin("neg", lambda o=o: mk_angle(-o.fields["h"]))      # unary minus is looked up on the instance
            return o
        AC.attrs["__truediv__"] = Builtin("div", lambda s, k: mk_angle(s.fields["h"] / k))
        AC.attrs["__mul__"] = Builtin("mul", lambda s, k: mk_angle(s.fields["h"] * k))
        AC.attrs["__float__"] = Builtin("float", lambda s: mk_rad(s.fields["h"] * sp.pi))
        RC = ClassVal("radians", builtin=True)

        def val(x):
            return x.fields["r"] if isinstance(x, SObj) and x.cls is RC else sp.nsimplify(x)

        def mk_rad(r):
            # a float holding radians: arithmetic a body may apply to it is carried out exactly
            o = SObj(RC, {"r": sp.nsimplify(r)})
            o.fields["__neg__"] = Builtin("neg", lambda o=o: mk_rad(-o.fields["r"]))
            o.fields["__pos__"] = Builtin("pos", lambda o=o: o)
            return o
        for nm, f in (("__add__", lambda a, b: a + b), ("__sub__", lambda a, b: a - b), ("__mul__", lambda a, b: a * b), ("__truediv__", lambda a, b: a / b)):
            RC.attrs[nm] = Builtin(nm, lambda s_, k, f=f: mk_rad(f(val(s_), val(k))))
            RC.attrs["__r" + nm[2:]] = Builtin("r" + nm, lambda s_, k, f=f: mk_rad(f(val(k), val(s_))))

        def t(it):
            fr_globals = it.ctx.mod_globals(m)
            fr_globals["pi"] = mk_angle(1)
            fr_globals["float"] = Builtin("float", lambda a: mk_rad(a.fields["h"] * sp.pi))
            for g in ("ry", "rx", "rz", "cz", "cx", "h", "zz_phase", "_phased_x", "_zz_phase", "_rz"):
                if g != fname:
                    fr_globals[g] = Builtin(g, lambda *a, g=g: calls.append((g, a)))
            env = {p: (("qubit", p) if not p.startswith("angle") else mk_angle(sp.Symbol("h_" + p))) for p in params}
            it.exec_snippet(m, "\n".join(ast.unparse(s) for s in node.body if not (isinstance(s, ast.Expr) and isinstance(s.value, ast.Constant))), env)
            return list(calls)
        paths = e.explore(t)
        return paths

    # ---- ch(control, target) = Ry(pi/4)_t . CZ . Ry(-pi/4)_t  ==  CH up to phase
    e.func_info(QM, "ch")
    paths = record(QM, "ch", ["control", "target"])

    def post_ch(p):
        if p.kind != "return":
            return z3.BoolVal(False)
        U = sp.eye(4)
        for g, a in p.value:
            if g == "ry" and a[0] == ("qubit", "target"):
                step = sp.kronecker_product(sp.eye(2), fam["ry"](a[1].fields["h"] * sp.pi))
            elif g == "cz" and a == (("qubit", "control"), ("qubit", "target")):
                step = table["CZ"]
            else:
                return z3.BoolVal(False)
            U = step * U
        return z3.BoolVal(bool(equal_up_to_phase(sp.simplify(U), table["CH"], True)))
    chk.prove_paths("quantum.ch:the-gate-sequence-of-its-body-multiplies-to-the-documented-CH-matrix(up to global phase)", paths, post_ch, func=f"{QM}:ch")
    # ---- zz_max = zz_phase(pi/2)
    e.func_info(QS, "zz_max")
    paths = record(QS, "zz_max", ["q1", "q2"])
    chk.prove_paths("qsystem.zz_max==zz_phase(q1, q2, pi/2)", paths,
                    lambda p: z3.BoolVal(p.kind == "return" and len(p.value) == 1 and p.value[0][0] == "zz_phase" and p.value[0][1][:2] == (("qubit", "q1"), ("qubit", "q2"))
                                         and sp.simplify(p.value[0][1][2].fields["h"] - sp.Rational(1, 2)) == 0), func=f"{QS}:zz_max")
    # ---- qsystem wrappers forward radians and qubits in order
    for fname, params, op, nang in (("phased_x", ["q", "angle1", "angle2"], "_phased_x", 2), ("zz_phase", ["q1", "q2", "angle"], "_zz_phase", 1), ("rz", ["q", "angle"], "_rz", 1)):
        e.func_info(QS, fname)
        paths = record(QS, fname, params)

        def post(p, params=params, op=op):
            if p.kind != "return" or len(p.value) != 1 or p.value[0][0] != op:
                return z3.BoolVal(False)
            args = p.value[0][1]
            want = [("qubit", q) if not q.startswith("angle") else ("radians", sp.Symbol("h_" + q) * sp.pi) for q in params]
            return z3.BoolVal(len(args) == len(want) and all((a == w) if w[0] == "qubit" else (isinstance(a, SObj) and a.cls.name == "radians" and sp.simplify(a.fields["r"] - w[1]) == 0) for a, w in zip(args, want)))
        chk.prove_paths(f"qsystem.{fname}:forwards-the-qubits-in-order-and-each-angle-in-radians(halfturns*pi)-to-{op}", paths, post, func=f"{QS}:{fname}")
    chk.use_engine(e)


def t4(chk):
    e = mk_engine(chk)
    m = e.module(AN)
    a, b, k = z3.Ints("a b k")
    ops_ = {"__add__": lambda: a + b, "__sub__": lambda: a - b, "__neg__": lambda: -a}
    for name, want in ops_.items():
        e.func_info(AN, f"angle.{name}")

        def t(it, name=name):
            A = it.lookup_global(m, "angle")
            x = it.call(A, [SInt(a)], {})
            y = it.call(A, [SInt(b)], {})
            r = it.call_method(x, name, [y] if name != "__neg__" else [])
            return r.fields["halfturns"]
        chk.prove_paths(f"angle.{name}:arithmetic-on-halfturns", e.explore(t), lambda p, want=want: (p.value.t == want()) if p.kind == "return" and isinstance(p.value, SInt) else z3.BoolVal(False),
                        func=f"{AN}:angle.{name}")
    for name in ("__mul__", "__rmul__"):
        e.func_info(AN, f"angle.{name}")

        def t(it, name=name):
            A = it.lookup_global(m, "angle")
            x = it.call(A, [SInt(a)], {})
            return it.call_method(x, name, [SInt(k)]).fields["halfturns"]
        chk.prove_paths(f"angle.{name}:scales-the-halfturns", e.explore(t), lambda p: (p.value.t == a * k) if p.kind == "return" and isinstance(p.value, SInt) else z3.BoolVal(False), func=f"{AN}:angle.{name}")
    # division, conversion and comparison: halfturns is an opaque real whose operators record the
    # expression they build (the operand ORDER is what matters: `x / angle` is angle(x / halfturns))
    import math as _math
    RC = ClassVal("Real", builtin=True)
    mk = lambda ex: SObj(RC, {"ex": ex})  # noqa: E731
    un = lambda v: v.fields["ex"] if isinstance(v, SObj) and v.cls is RC else v  # noqa: E731
    RC.attrs["__truediv__"] = Builtin("div", lambda s_, o: mk(("div", un(s_), un(o))))
    RC.attrs["__rtruediv__"] = Builtin("rdiv", lambda s_, o: mk(("div", un(o), un(s_))))
    RC.attrs["__mul__"] = Builtin("mul", lambda s_, o: mk(("mul", un(s_), un(o))))
    RC.attrs["__rmul__"] = Builtin("rmul", lambda s_, o: mk(("mul", un(o), un(s_))))
    RC.attrs["__eq__"] = Builtin("eq", lambda s_, o: ("eq", un(s_), un(o)))
    e.models[f"{AN}:py"] = lambda it, a_, k_: a_[0]
    norm = lambda v: tuple(_math.pi if getattr(x, "name", None) == "math.pi" else x for x in v) if isinstance(v, tuple) else v  # noqa: E731
    cases = {"__mul__": (["K"], ("mul", "H", "K")), "__rmul__": (["K"], ("mul", "H", "K")), "__truediv__": (["K"], ("div", "H", "K")), "__rtruediv__": (["K"], ("div", "K", "H")), "__float__": ([], ("mul", "H", _math.pi)), "__eq__": (["OTHER"], ("eq", "H", "H2"))}
    for name, (args, want) in cases.items():
        e.func_info(AN, f"angle.{name}")

        def t2(it, name=name, args=args):
            A = it.lookup_global(m, "angle")
            x = it.call(A, [mk("H")], {})
            actual = [it.call(A, [mk("H2")], {}) if a_ == "OTHER" else mk(a_) for a_ in args]
            r = it.call_method(x, name, actual)
            return r.fields["halfturns"] if isinstance(r, SObj) and "halfturns" in r.fields else r
        chk.prove_paths(f"angle.{name}:{want}", e.explore(t2), lambda p, want=want: z3.BoolVal(p.kind == "return" and (norm(un(p.value)) == want or (want[0] == "mul" and norm(un(p.value)) == (want[0], want[2], want[1])))), func=f"{AN}:angle.{name}",
                        replay=lambda m_, name=name: {"script": REPLAY_ANGLE, "input": {"op": name}})
    e.models.pop(f"{AN}:py", None)
    chk.use_engine(e)


REPLAY_ANGLE = r'''
import guppy_plainbool
import math, tempfile, importlib.util, os, sys, shutil
src = """from guppylang import guppy
from guppylang.std.angles import angle
from guppylang.std.builtins import result
@guppy
def main() -> None:
    a = angle(0.3)
    result("__mul__", float(a * 2.5))
    result("__rmul__", float(2.5 * a))
    result("__truediv__", float(a / 2.5))
    result("__rtruediv__", float(2.5 / a))
    result("__float__", float(a))
    result("__eq__", 1.0 if a == angle(0.3) else 0.0)
"""
I = INPUT
d = tempfile.mkdtemp(dir=os.environ.get("TMPDIR", "/var/tmp")); fn = os.path.join(d, "replay_c20a.py"); open(fn, "w").write(src)
spec = importlib.util.spec_from_file_location("replay_c20a", fn); m = importlib.util.module_from_spec(spec); sys.modules["replay_c20a"] = m
spec.loader.exec_module(m)
ent = dict(list(m.main.emulator(n_qubits=1).run().results)[0].entries)
shutil.rmtree(d, ignore_errors=True)
h, k = 0.3, 2.5
want = {"__mul__": h * k * math.pi, "__rmul__": h * k * math.pi, "__truediv__": h / k * math.pi, "__rtruediv__": k / h * math.pi, "__float__": h * math.pi, "__eq__": 1.0}[I["op"]]
got = float(ent[I["op"]])
print(json.dumps({"violates": abs(got - want) > 1e-9, "observed": got, "required": want, "detail": f"angle({h}) {I['op']} {k} on the emulator: {got} radians, required {want}"}))
'''


def functional_wrappers(chk):
    """std/quantum/functional.py and std/qsystem/functional.py: "the same gates with functional syntax".
    Every wrapper `g(p1, ..., pk)` calls the imperative gate OF THE SAME NAME with exactly its own
    parameters in declaration order — so its matrix and qubit order are the documented ones of that gate —
    and returns its qubit parameters in declaration order (followed by the measurement result where the
    gate has one)."""
    n = 0
    for modname, alias in (("guppylang.std.quantum.functional", "quantum"), ("guppylang.std.qsystem.functional", "qsystem")):
        e = mk_engine(chk)
        m = e.module(modname)
        for node in m.tree.body:
            if not isinstance(node, ast.FunctionDef):
                continue
            e.func_info(modname, node.name)
            params = [a.arg for a in node.args.args]
            qubits = [a.arg for a in node.args.args if "qubit" in ast.unparse(a.annotation)]
            body = [s_ for s_ in node.body if not (isinstance(s_, ast.Expr) and isinstance(s_.value, ast.Constant))]
            call = body[0].value if body and isinstance(body[0], (ast.Expr, ast.Assign)) else None
            ok = isinstance(call, ast.Call) and ast.unparse(call.func) == f"{alias}.{node.name}" and [ast.unparse(a) for a in call.args] == params and not call.keywords
            res = body[0].targets[0].id if ok and isinstance(body[0], ast.Assign) and isinstance(body[0].targets[0], ast.Name) else None
            consumed = "owned" in ast.unparse(node.args.args[0].annotation) and len(body) == 1 and node.returns is not None and ast.unparse(node.returns) == "None"
            if len(body) == 2 and isinstance(body[1], ast.Return) and body[1].value is not None:
                rv = body[1].value
                got = [ast.unparse(x) for x in rv.elts] if isinstance(rv, ast.Tuple) else [ast.unparse(rv)]
                want_a = qubits + ([res] if res else [])
                ok = ok and (got == want_a or (res is not None and got == [res]))      # measure(q @owned) returns only the result
            else:
                ok = ok and consumed                                                          # qfree: consumes the qubit, returns nothing
            chk.record(f"{modname.split('.')[-2]}.functional.{node.name}:calls-{alias}.{node.name}-with-its-own-parameters-in-order/\\returns-its-qubits-in-order", bool(ok),
                       " ; ".join(ast.unparse(s_) for s_ in body)[:200], func=f"{modname}:{node.name}", backend="structural (AST of the real wrapper)")
            n += 1
        chk.use_engine(e)
    chk.record("functional-wrappers:all-found", n >= 28, str(n), kind="reachability")
