"""Binding-table mode: reads the declarative operator bindings of guppylang's std library
(`@hugr_op(int_op("idiv_s"))`, `@custom_function(BoolOpCompiler(int_op("ilt_u")))`, ...) by
*evaluating the decorator expressions of the real source* with pyvc: /repo's own helper
functions (int_op, float_op, external_op, quantum_op, convert helpers a refactoring may add ...)
run symbolically up to the hugr boundary, where extension objects are mocks that record which
(extension, op name, type args) is requested.  The result per method is the *body* of a
one-call function: "call external op X"."""
import ast

from pyvc import SObj, ClassVal, Builtin, FuncVal, Frame, Unsupported, PyRaise

EXTS = {
    "hugr.std.int.INT_OPS_EXTENSION": "arithmetic.int",
    "hugr.std.int.CONVERSIONS_EXTENSION": "arithmetic.conversions",
    "hugr.std.float.FLOAT_OPS_EXTENSION": "arithmetic.float",
    "hugr.std.logic.EXTENSION": "logic",
    "hugr.std.collections.list.EXTENSION": "collections.list",
    "hugr.std.PRELUDE": "prelude",
}
TKET_EXTS = ["BOOL_EXTENSION", "DEBUG_EXTENSION", "FUTURES_EXTENSION", "GLOBAL_PHASE_EXTENSION",
             "GUPPY_EXTENSION", "MODIFIER_EXTENSION", "QSYSTEM_EXTENSION", "QSYSTEM_RANDOM_EXTENSION",
             "QSYSTEM_UTILS_EXTENSION", "QUANTUM_EXTENSION", "RESULT_EXTENSION", "ROTATION_EXTENSION",
             "WASM_EXTENSION"]


def rec(name):
    """External class modelled as a record constructor (instances remember args/kwargs)."""
    cls = ClassVal(name, builtin=True)
    cls.is_record = True
    return cls


def ext_mock(extname):
    cls = ClassVal("Extension", builtin=True)
    opcls = ClassVal("OpDef", builtin=True)
    eo = SObj(cls, {"name": extname})

    def get_op(name):
        od = SObj(opcls, {"ext": extname, "name": name})

        def instantiate(args=None, ty=None, **kw):
            return SObj(ClassVal("ExtOp", builtin=True), {"ext": extname, "op": name, "args": args, "ty": ty})
        od.fields["instantiate"] = Builtin("OpDef.instantiate", instantiate)
        return od
    eo.fields["get_op"] = Builtin("Extension.get_op", get_op)
    eo.fields["get_type"] = Builtin("Extension.get_type", lambda n: SObj(ClassVal("TypeDef", builtin=True), {"ext": extname, "name": n}))
    return eo


def install_models(e):
    for q, n in EXTS.items():
        e.ext_models[q] = ext_mock(n)
    tk = "guppylang_internals.std._internal.compiler.tket_exts"
    for n in TKET_EXTS:
        e.models[f"{tk}:{n}"] = None
    # tket extension objects are module globals of tket_exts.py built by calling external
    # tket_exts.<name>(); model those factories
    for fn, extname in (("bool", "tket.bool"), ("debug", "tket.debug"), ("futures", "tket.futures"),
                        ("global_phase", "tket.global_phase"), ("guppy", "tket.guppy"), ("modifier", "tket.modifier"),
                        ("qsystem", "tket.qsystem"), ("qsystem_random", "tket.qsystem.random"),
                        ("qsystem_utils", "tket.qsystem.utils"), ("quantum", "tket.quantum"), ("result", "tket.result"),
                        ("rotation", "tket.rotation"), ("wasm", "tket.wasm")):
        mock = ext_mock(extname)
        e.ext_models[f"tket_exts.{fn}"] = (lambda m: (lambda it, a, k: m))(mock)
    for n in list(e.models):
        if e.models[n] is None:
            del e.models[n]
    for q in ("hugr.tys.BoundedNatArg", "hugr.tys.VariableArg", "hugr.tys.TypeTypeParam", "hugr.ops.ExtOp",
              "hugr.tys.FunctionType", "hugr.tys.ExtType", "hugr.tys.Opaque", "hugr.tys.TypeTypeArg",
              "hugr.tys.ListArg", "hugr.tys.Tuple", "hugr.tys.Sum", "hugr.tys.Either", "hugr.tys.Option",
              "hugr.tys.StringArg", "hugr.tys.BoundedNatParam", "hugr.tys.TupleParam", "hugr.tys.ListParam"):
        e.ext_models[q] = rec(q.rsplit(".", 1)[1])
    for q in ("hugr.tys.TypeBound",):
        tb = SObj(ClassVal("TypeBound", builtin=True), {})
        for m in ("Copyable", "Linear", "Any"):
            tb.fields[m] = SObj(ClassVal("TypeBound", builtin=True), {"name": m})
        e.ext_models[q] = tb
    e.ext_models["hugr.tys.Bool"] = SObj(ClassVal("HugrType", builtin=True), {"name": "Bool"})
    e.ext_models["hugr.tys.Qubit"] = SObj(ClassVal("HugrType", builtin=True), {"name": "Qubit"})
    e.ext_models["hugr.tys.Unit"] = SObj(ClassVal("HugrType", builtin=True), {"name": "Unit"})
    e.ext_models["hugr.std.float.FLOAT_T"] = SObj(ClassVal("HugrType", builtin=True), {"name": "float64"})
    e.ext_models["hugr.std.int.int_t"] = rec("int_t")


class Binding:
    def __init__(self, cls, name):
        self.cls = cls
        self.name = name
        self.kind = None          # hugr_op | custom | guppy | plain
        self.op = None            # (ext, opname, n_type_args) for the op the compiler emits
        self.compiler = None      # class name of the custom compiler
        self.checker = None       # ('ReversingChecker',) / ('DunderChecker', dunder, num_args)
        self.params = []          # [(name, annotation source)]
        self.ret = None
        self.node = None
        self.raw = {}

    def __repr__(self):
        return f"<{self.cls}.{self.name} {self.kind} op={self.op} compiler={self.compiler} checker={self.checker}>"


def _instantiate_op(it, opfn):
    """Call the op-factory closure /repo built (external_op's inner `op`) on mock arguments and
    return the (ext, name, n_args) of the ExtOp it asks hugr for."""
    ty = SObj(ClassVal("FunctionType", builtin=True), {"input": [None, None], "output": [None]})
    out = it.call(opfn, [ty, [], SObj(ClassVal("Ctx", builtin=True), {})], {})
    if isinstance(out, SObj) and "op" in out.fields:
        return (out.fields["ext"], out.fields["op"], len(out.fields.get("args") or []))
    if isinstance(out, SObj) and out.cls.name == "ExtOp" and "args" in out.fields:
        a = out.fields["args"]
        od = a[0] if a else out.fields.get("op_def")
        if isinstance(od, SObj) and "ext" in od.fields:
            targs = out.fields.get("args")[2] if len(a) > 2 else a[2:] if False else (a[2] if len(a) > 2 else [])
            return (od.fields["ext"], od.fields["name"], len(targs or []))
    if isinstance(out, SObj) and out.cls.name == "UnsupportedOp":
        return ("unsupported", out.fields.get("op_name"), 0)
    raise Unsupported(f"op factory returned {out!r}")


def extract_class(e, it, modname, clsname):
    """{method name -> Binding} for a std class, by evaluating its decorators."""
    m = e.module(modname)
    cnode = m.find(clsname)
    fr = Frame(m)
    fr.locals = it.ctx.mod_globals(m)
    out = {}
    for st in cnode.body:
        if not isinstance(st, ast.FunctionDef):
            continue
        b = Binding(clsname, st.name)
        b.module = modname
        b.node = st
        b.params = [(a.arg, ast.unparse(a.annotation) if a.annotation else None) for a in st.args.args]
        b.ret = ast.unparse(st.returns) if st.returns else None
        b.kind = "plain"
        for d in st.decorator_list:
            dn = d.func if isinstance(d, ast.Call) else d
            name = ast.unparse(dn)
            if name in ("guppy", "guppy.declare"):
                b.kind = "guppy" if name == "guppy" else "declare"
            elif name == "no_type_check":
                continue
            elif name in ("hugr_op", "custom_function", "guppy.hugr_op", "guppy.custom"):
                b.kind = "hugr_op" if name.endswith("hugr_op") else "custom"
                args = [it.eval(a, fr) for a in d.args]
                kw = {k.arg: it.eval(k.value, fr) for k in d.keywords}
                first = args[0] if args else kw.get("op" if b.kind == "hugr_op" else "compiler")
                b.raw = {"args": args, "kw": kw}
                if b.kind == "hugr_op":
                    b.compiler = "OpCompiler"
                    b.op = _instantiate_op(it, first)
                elif first is not None:
                    if not isinstance(first, SObj):
                        raise Unsupported(f"compiler object {first!r}")
                    b.compiler = first.cls.name
                    inner = None
                    for fv in first.fields.values():
                        if isinstance(fv, FuncVal):
                            inner = fv
                    if inner is not None:
                        b.op = _instantiate_op(it, inner)
                chk = kw.get("checker") or (args[1] if len(args) > 1 else None)
                if isinstance(chk, SObj):
                    b.checker = (chk.cls.name,) + tuple(v for k, v in chk.fields.items() if isinstance(v, (str, int)))
                    b.raw["checker"] = chk
            else:
                b.raw.setdefault("other_decorators", []).append(name)
        out[st.name] = b
    return out
