"""Native oracle for C20 (bounded layer): emulated state vs documented gate matrices.

For every gate function of guppylang.std.quantum and guppylang.std.qsystem that documents a matrix (parsed from its
docstring by the contract, exactly, and handed over numerically), every order in which distinct
qubits can be passed to it, rotation angles from a list, and input states {every computational
basis state, one generic product superposition}, a circuit  prepare; gate; state_result  is
compiled by the real pipeline and run on the selene state-vector simulator.  The emulated state
must equal (fidelity 1 up to 1e-9, i.e. up to global phase) the documented matrix applied to the
listed qubits of the prepared state.  reset and project_z are checked as projective Z-basis
operations on product states (post-state = projection, reported bit = outcome).

The basis inputs fix every column of the implemented unitary up to a phase, the superposition
input fixes the relative phases; the preparation itself uses x, h, rz, whose matrices are among
those under test.  measure() cannot run in this sandbox (DESIGN.md §1).
"""
ORACLE = r'''
import guppy_plainbool
import itertools, os, sys, tempfile, importlib.util, shutil, json
import numpy as np

# the qsystem extension installed here (tket-exts 0.14) no longer defines the two measurement operations
# /repo's std.qsystem binds at import time; declare them (never executed) so that the module imports and
# its gate functions (phased_x, zz_phase, zz_max, rz) can be compiled and emulated
import hugr.ext as _he, hugr.tys as _ht
from guppylang_internals.std._internal.compiler import tket_exts as _TE
_ext = _TE.QSYSTEM_EXTENSION
_q = _ext.get_op("Reset").signature.poly_func.body.input[0]
for _name, _outs in (("Measure", [_ht.Bool]), ("MeasureReset", [_q, _ht.Bool])):
    if _name not in _ext.operations:
        _ext.add_op_def(_he.OpDef(_name, _he.OpDefSig(_ht.PolyFuncType([], _ht.FunctionType([_q], _outs))), description="declared by the verification harness; never executed"))

HEAD = """from guppylang import guppy
import guppylang.std.qsystem as qsystem
import guppylang.std.quantum.functional as qf
from guppylang.std.quantum import *
from guppylang.std.quantum import qubit, discard, reset, project_z
from guppylang.std.angles import angle, pi
from guppylang.std.debug import state_result
from guppylang.std.builtins import result
"""
H = np.array([[1, 1], [1, -1]], dtype=complex) / np.sqrt(2)
X = np.array([[0, 1], [1, 0]], dtype=complex)
def RZ(ht): return np.diag([np.exp(-0.5j * np.pi * ht), np.exp(0.5j * np.pi * ht)])

def apply(state, M, qs, n):
    k = len(qs)
    st = state.reshape([2] * n)
    Mt = np.asarray(M, dtype=complex).reshape([2] * (2 * k))
    st = np.tensordot(Mt, st, axes=(list(range(k, 2 * k)), list(qs)))
    st = np.moveaxis(st, list(range(k)), list(qs))
    return st.reshape(-1)

def prep_code(kind, n):
    """kind: ("basis", bits) | ("sup",)  ->  (code lines, reference state)"""
    st = np.zeros(2 ** n, dtype=complex); st[0] = 1
    lines = []
    if kind[0] == "basis":
        for i, b in enumerate(kind[1]):
            if b:
                lines.append(f"x(q{i})"); st = apply(st, X, [i], n)
    else:
        for i in range(n):
            ht = 0.37 + 0.2 * i
            lines += [f"h(q{i})", f"rz(q{i}, angle({ht}))"]
            st = apply(st, H, [i], n); st = apply(st, RZ(ht), [i], n)
    return lines, st

def cases(gates):
    out = []
    for g in gates:
        k = g["nq"]
        M = np.array([[complex(*c) for c in row] for row in g["matrix"]])
        preps = [("basis", bits) for bits in itertools.product((0, 1), repeat=k)] + [("sup",)]
        for perm in itertools.permutations(range(k)):
            for pr in preps:
                lines, st = prep_code(pr, k)
                args = [f"q{i}" for i in perm] + [f"angle({a})" for a in g["angles"]]
                if g["name"].startswith("qf."):
                    # functional syntax: the qubits are consumed and handed back in the same order
                    lines.append(f"{', '.join(f'q{i}' for i in perm)} = {g['name']}({', '.join(args)})")
                else:
                    lines.append(f"{g['name']}({', '.join(args)})")
                ref = apply(st, M, list(perm), k)
                out.append({"gate": g["name"], "angles": g["angles"], "perm": list(perm), "prep": pr, "n": k, "lines": lines, "ref": ref, "kind": "unitary"})
    # projective operations on the product superposition (and on basis states)
    for n in (1, 2):
        for tgt in range(n):
            for pr in [("sup",)] + [("basis", bits) for bits in itertools.product((0, 1), repeat=n)]:
                lines, st = prep_code(pr, n)
                t = st.reshape([2] * n)
                # reset: the target factor becomes |0> (product input => exact)
                rest = np.sum(np.abs(t) ** 2, axis=tgt)
                out.append({"gate": "reset", "angles": [], "perm": [tgt], "prep": pr, "n": n, "lines": lines + [f"reset(q{tgt})"], "ref": None, "kind": "reset", "st": st})
                out.append({"gate": "project_z", "angles": [], "perm": [tgt], "prep": pr, "n": n, "lines": lines + [f"result('B', project_z(q{tgt}))"], "ref": None, "kind": "project", "st": st})
    return out

def run_cases(cs):
    body = []
    for i, c in enumerate(cs):
        n = c["n"]
        body += [f"q{j} = qubit()" for j in range(n)] + c["lines"] + [f"state_result('c{i}', {', '.join(f'q{j}' for j in range(n))})"] + [f"discard(q{j})" for j in range(n)]
    src = HEAD + "@guppy\ndef main() -> None:\n" + "\n".join("    " + l for l in body) + "\n"
    d = tempfile.mkdtemp(dir=os.environ.get("TMPDIR", "/var/tmp")); fn = os.path.join(d, "c20_progs.py")
    open(fn, "w").write(src)
    spec = importlib.util.spec_from_file_location("c20_progs", fn); m = importlib.util.module_from_spec(spec); sys.modules["c20_progs"] = m
    try:
        spec.loader.exec_module(m)
        r = m.main.emulator(n_qubits=3).statevector_sim().with_seed(11).run()
        states = {k: np.asarray(v.as_single_state(), dtype=complex) for k, v in r.partial_state_dicts()[0].items()}
        bits = [int(v) for t, v in r.results[0].entries if t == "B"]
    finally:
        shutil.rmtree(d, ignore_errors=True); sys.modules.pop("c20_progs", None)
    return states, bits

def judge(cs, states, bits):
    bad = []
    bi = 0
    for i, c in enumerate(cs):
        got = states.get(f"c{i}")
        if got is None:
            bad.append((c, "no state reported")); continue
        n = c["n"]
        if c["kind"] == "unitary":
            fid = abs(np.vdot(c["ref"], got)) ** 2
            if abs(fid - 1) > 1e-9: bad.append((c, f"fidelity with the documented matrix applied to qubits {c['perm']} is {fid:.9f}"))
        else:
            t = c["st"].reshape([2] * n); tgt = c["perm"][0]
            if c["kind"] == "reset":
                proj0 = np.take(t, 0, axis=tgt); proj1 = np.take(t, 1, axis=tgt)
                # product input: both slices are proportional to the state of the other qubits
                rest = proj0 if np.linalg.norm(proj0) > 1e-9 else proj1
                rest = rest / np.linalg.norm(rest)
                ref = np.zeros([2] * n, dtype=complex)
                idx = [slice(None)] * n; idx[tgt] = 0
                ref[tuple(idx)] = rest
                fid = abs(np.vdot(ref.reshape(-1), got)) ** 2
                if abs(fid - 1) > 1e-9: bad.append((c, f"after reset(q{tgt}) the state is not |0> on that qubit with the others untouched (fidelity {fid:.9f})"))
            else:
                b = bits[bi]; bi += 1
                sl = np.take(t, b, axis=tgt)
                if np.linalg.norm(sl) < 1e-9:
                    bad.append((c, f"project_z reported {b}, an outcome of probability 0")); continue
                ref = np.zeros([2] * n, dtype=complex)
                idx = [slice(None)] * n; idx[tgt] = b
                ref[tuple(idx)] = sl / np.linalg.norm(sl)
                fid = abs(np.vdot(ref.reshape(-1), got)) ** 2
                if abs(fid - 1) > 1e-9: bad.append((c, f"after project_z(q{tgt}) = {b} the state is not the normalised projection (fidelity {fid:.9f})"))
    return bad
'''

DRIVER = r'''
I_ = INPUT
cs = cases(I_["gates"])[I_["chunk"]::I_["nchunks"]]
bad = None; n = 0
B = 40
for off in range(0, len(cs), B):
    batch = cs[off:off + B]
    states, bits = run_cases(batch)
    n += len(batch)
    b = judge(batch, states, bits)
    if b and bad is None:
        c, why = b[0]
        bad = {"gate": c["gate"], "angles": c["angles"], "perm": c["perm"], "prep": list(c["prep"]) if c["prep"][0] == "sup" else ["basis", list(c["prep"][1])], "n": c["n"], "lines": c["lines"],
               "detail": f"{c['gate']}({', '.join('q%d' % i for i in c['perm'])}{''.join(', angle(%s)' % a for a in c['angles'])}) on input {c['prep']}: {why}", "more": len(b)}
    if bad: break
print(json.dumps({"violates": bad is not None, "evaluations": n, "witness": bad, "detail": bad and bad["detail"]}))
'''
