"""C27 — Stack and PriorityQueue follow their reference models.

Guppy mode (contracts/guppycoll.py) over guppylang/std/collections/{stack,priority_queue}.py:
every method of Stack and PriorityQueue, empty_stack, empty_priority_queue.

Abstract views.  Stack: the list [payload(buf[i]) | i < end] with the representation invariant
wf (the INVARIANT comment of the source): 0 <= end <= MAX_SIZE, cells below `end` are some, the
rest nothing.  PriorityQueue: wf + binary-heap order  prio(buf[(k-1)//2]) <= prio(buf[k]) + ghost
multiset of entries.  Capacity MAX_SIZE is an arbitrary integer below 2^62 (index arithmetic
cannot wrap; every arithmetic result has its own in-range obligation).  Loops are cut at
invariants (sift-up: heap except at i + grandparent clause; sift-down: hole at i).
"""
import z3

from pyvc import SObj, ClassVal, Builtin, PyRaise, LoopSpec, Unsupported, SBool
from pyvc.symcoll import SGen
from .common import mk_engine
from . import guppycoll as GC
from .guppycoll import MInt, GOpt, GArray, Payload

TITLE = "Stack = LIFO list, PriorityQueue = min-heap preserving the multiset of entries, exact panic conditions; all capacities, all states"
SMOD = "guppylang.std.collections.stack"
QMOD = "guppylang.std.collections.priority_queue"
T = z3.DeclareSort("T")
Entry, mkEntry, (e_prio, e_val) = z3.TupleSort("Entry", [z3.IntSort(), T])
N = z3.Int("MAX_SIZE")
k_, c_ = z3.Ints("k c")


def stack_payload():
    from pyvc import SOpq
    return Payload([T], lambda ts: SOpq(ts[0], "T"), lambda v: [v.t], lambda ts: ts[0])


def pq_payload():
    from pyvc import SOpq
    return Payload([z3.IntSort(), T], lambda ts: (MInt(ts[0]), SOpq(ts[1], "T")),
                   lambda v: [MInt.of(v[0]).t, v[1].t], lambda ts: mkEntry(ts[0], ts[1]))


def sym_array(tag, pl, bag_sort):
    return GArray(N, z3.Const(f"{tag}_some", z3.ArraySort(z3.IntSort(), z3.BoolSort())),
                  [z3.Const(f"{tag}_c{i}", z3.ArraySort(z3.IntSort(), s)) for i, s in enumerate(pl.sorts)], pl,
                  z3.Const(f"{tag}_bag", z3.ArraySort(bag_sort, z3.IntSort())))


def wf(a: GArray, size):
    return z3.And(size >= 0, size <= a.n, z3.ForAll([k_], z3.Implies(z3.And(k_ >= 0, k_ < a.n), z3.Select(a.some, k_) == (k_ < size))))


def heap(a: GArray, size):
    P = a.cols[0]
    return z3.ForAll([k_], z3.Implies(z3.And(k_ >= 1, k_ < size), z3.Select(P, (k_ - 1) / 2) <= z3.Select(P, k_)))


def same_prefix(a: GArray, b: GArray, upto):
    return z3.ForAll([k_], z3.Implies(z3.And(k_ >= 0, k_ < upto), z3.And(*[z3.Select(x, k_) == z3.Select(y, k_) for x, y in zip(a.cols, b.cols)])))


def is_panic(p):
    return p.kind == "raise" and p.value.cls is GC.PANIC


def bag_add(bag, e):
    return z3.Store(bag, e, z3.Select(bag, e) + 1)


def bag_del(bag, e):
    return z3.Store(bag, e, z3.Select(bag, e) - 1)


def run(chk):
    e = mk_engine(chk)
    GC.install(e, [SMOD, QMOD])
    for m in (SMOD, QMOD):
        e.global_presets[(m, "MAX_SIZE")] = MInt(N)
    e.elems = {}
    PRE = [N >= 0, N < (1 << 62)]

    def array_model(it, a, k):
        gen = a[0]
        if not isinstance(gen, SGen):
            raise Unsupported("array(...) of a concrete generator")
        kk, v = gen.sample(it, "ae")
        if not (isinstance(v, GOpt) and z3.is_false(z3.simplify(v.some))):
            raise Unsupported("array comprehension element is not nothing()")
        pl = it.ctx.ghost["payload"]
        return GArray(N, z3.K(z3.IntSort(), z3.BoolVal(False)), [z3.Const(f"init_c{i}", z3.ArraySort(z3.IntSort(), s)) for i, s in enumerate(pl.sorts)],
                      pl, z3.K(it.ctx.ghost["bag_sort"], z3.IntVal(0)))
    array_model._pyvc_native = True
    for m in (SMOD, QMOD):
        e.global_presets[(m, "array")] = array_model
    chk.assumptions += [GC.__doc__.split("ASSUMED")[1].strip().replace("\n", " ")]
    chk.assumptions.append("root-minimality of a heap (prio[0] <= prio[i] for all i) is derived from the heap order by induction on i: base and step are discharged by z3, the induction schema over naturals is applied on paper")

    for q in ("Stack.__len__", "Stack.__iter__", "Stack.__next__", "Stack.push", "Stack.pop", "Stack.peek", "Stack.discard_empty", "empty_stack"):
        e.func_info(SMOD, q)
    for q in ("PriorityQueue.__len__", "PriorityQueue.__iter__", "PriorityQueue.__next__", "PriorityQueue.push", "PriorityQueue.pop",
              "PriorityQueue.peek", "PriorityQueue.discard_empty", "empty_priority_queue"):
        e.func_info(QMOD, q)

    # =================================================================== Stack
    def stack_section():
        pl = stack_payload()
        end = z3.Int("end")
        elem = z3.Const("elem", T)
        for mod, cls in ((SMOD, "Stack"),):
            e.loop_specs[f"{mod}:{cls}.discard_empty"] = {0: LoopSpec("elem in self.buf", lambda it, fr: z3.BoolVal(True), lambda it, fr: None, modifies={"elem"})}

        def mk(it):
            it.ctx.ghost["payload"], it.ctx.ghost["bag_sort"] = pl, T
            S = it.lookup_global(e.module(SMOD), "Stack")
            arr = sym_array("buf", pl, T)
            old = arr.snapshot()
            s = SObj(S, {"buf": arr, "end": MInt(end)})
            for h in PRE:
                it.ctx.assume(h)
            it.ctx.assume(wf(arr, end))
            return S, s, old

        def stack_of(v):
            return isinstance(v, SObj) and v.cls.name == "Stack"

        def t_push(it):
            from pyvc import SOpq
            S, s, old = mk(it)
            return it.call_method(s, "push", [SOpq(elem, "T")]), old

        def post_push(p):
            if is_panic(p):
                return end >= N
            if p.kind != "return" or not stack_of(p.value[0]):
                return z3.BoolVal(False)
            r, old = p.value
            a = r.fields["buf"]
            ne = MInt.of(r.fields["end"]).t
            return z3.And(end < N, ne == end + 1, wf(a, ne), z3.Select(a.cols[0], end) == elem, same_prefix(a, old, end))
        chk.prove_paths("Stack.push:panics<=>full;else-view'==view+[elem]/\\wf'", e.explore(t_push), post_push, func=f"{SMOD}:Stack.push")

        def t_pop(it):
            S, s, old = mk(it)
            return it.call_method(s, "pop", []), old

        def post_pop(p):
            if is_panic(p):
                return end <= 0
            if p.kind != "return":
                return z3.BoolVal(False)
            (v, r), old = p.value
            a = r.fields["buf"]
            ne = MInt.of(r.fields["end"]).t
            return z3.And(end > 0, ne == end - 1, wf(a, ne), v.t == z3.Select(old.cols[0], end - 1), same_prefix(a, old, end - 1))
        chk.prove_paths("Stack.pop:panics<=>empty;else-returns-view[-1]/\\view'==view[:-1]/\\wf'", e.explore(t_pop), post_pop, func=f"{SMOD}:Stack.pop")

        def t_peek(it):
            S, s, old = mk(it)
            return it.call_method(s, "peek", []), old

        def post_peek(p):
            if is_panic(p):
                return end <= 0
            if p.kind != "return":
                return z3.BoolVal(False)
            (v, r), old = p.value
            a = r.fields["buf"]
            ne = MInt.of(r.fields["end"]).t
            return z3.And(end > 0, ne == end, wf(a, ne), v.t == z3.Select(old.cols[0], end - 1), same_prefix(a, old, end))
        chk.prove_paths("Stack.peek:panics<=>empty;else-returns-view[-1]/\\view-unchanged", e.explore(t_peek), post_peek, func=f"{SMOD}:Stack.peek")

        def t_len(it):
            S, s, old = mk(it)
            return it.builtins["len"].fn(s)
        chk.prove_paths("Stack.__len__==len(view)", e.explore(t_len), lambda p: z3.BoolVal(False) if p.kind != "return" else MInt.of(p.value).t == end, func=f"{SMOD}:Stack.__len__")

        def t_next(it):
            S, s, old = mk(it)
            return it.call_method(s, "__next__", []), old

        def post_next(p):
            if p.kind != "return":
                return z3.BoolVal(False)   # within wf no panic may occur (discard_empty only on an empty stack)
            o, old = p.value
            if not isinstance(o, GOpt):
                return z3.BoolVal(False)
            if z3.is_false(z3.simplify(o.some)):
                return end == 0
            (v, r) = o.payload
            ne = MInt.of(r.fields["end"]).t
            return z3.And(end > 0, v.t == z3.Select(old.cols[0], end - 1), ne == end - 1, wf(r.fields["buf"], ne), same_prefix(r.fields["buf"], old, end - 1))
        chk.prove_paths("Stack.__next__:top-to-bottom;nothing<=>empty;never-panics-on-wf-stack", e.explore(t_next), post_next, func=f"{SMOD}:Stack.__next__")

        def t_iter(it):
            S, s, old = mk(it)
            return it.call_method(s, "__iter__", []), s
        chk.prove_paths("Stack.__iter__:returns-self", e.explore(t_iter), lambda p: z3.BoolVal(p.kind == "return" and p.value[0] is p.value[1]), func=f"{SMOD}:Stack.__iter__")

        def t_empty(it):
            it.ctx.ghost["payload"], it.ctx.ghost["bag_sort"] = pl, T
            for h in PRE:
                it.ctx.assume(h)
            return it.call(it.lookup_global(e.module(SMOD), "empty_stack"), [], {})

        def post_empty(p):
            if p.kind != "return" or not stack_of(p.value):
                return z3.BoolVal(False)
            ne = MInt.of(p.value.fields["end"]).t
            return z3.And(ne == 0, wf(p.value.fields["buf"], ne))
        chk.prove_paths("empty_stack:view==[]/\\wf", e.explore(t_empty), post_empty, func=f"{SMOD}:empty_stack")
    chk.section("stack", stack_section)

    # =================================================================== PriorityQueue
    pl = pq_payload()
    size = z3.Int("size")
    val = z3.Const("value", T)
    prio = z3.Int("priority")

    def mkq(it):
        it.ctx.ghost["payload"], it.ctx.ghost["bag_sort"] = pl, Entry
        Q = it.lookup_global(e.module(QMOD), "PriorityQueue")
        arr = sym_array("buf", pl, Entry)
        old = arr.snapshot()
        q = SObj(Q, {"buf": arr, "size": MInt(size)})
        for h in PRE:
            it.ctx.assume(h)
        it.ctx.assume(wf(arr, size))
        it.ctx.assume(heap(arr, size))
        it.ctx.assume(z3.And(prio >= GC.IMIN, prio <= GC.IMAX))
        it.ctx.ghost["old"] = old
        return Q, q, old

    def havoc_arr(it, fr, tag):
        a = fr.locals["self"].fields["buf"]
        a.some = z3.Const(it.ctx.fresh_name(tag + "_some"), z3.ArraySort(z3.IntSort(), z3.BoolSort()))
        a.cols = [z3.Const(it.ctx.fresh_name(f"{tag}_c{i}"), z3.ArraySort(z3.IntSort(), s)) for i, s in enumerate(pl.sorts)]
        a.bag = z3.Const(it.ctx.fresh_name(tag + "_bag"), z3.ArraySort(Entry, z3.IntSort()))

    def push_inv(it, fr):
        a = fr.locals["self"].fields["buf"]
        old = it.ctx.ghost["old"]
        i = MInt.of(fr.locals["i"]).t
        P = a.cols[0]
        par = lambda x: (x - 1) / 2  # noqa
        return z3.And(
            i >= 0, i <= size, size < N, MInt.of(fr.locals["self"].fields["size"]).t == size,
            z3.ForAll([k_], z3.Implies(z3.And(k_ >= 0, k_ < N), z3.Select(a.some, k_) == (k_ <= size))),
            z3.ForAll([k_], z3.Implies(z3.And(k_ >= 1, k_ <= size, k_ != i), z3.Select(P, par(k_)) <= z3.Select(P, k_))),
            z3.Implies(i > 0, z3.ForAll([c_], z3.Implies(z3.And(z3.Or(c_ == 2 * i + 1, c_ == 2 * i + 2), c_ <= size),
                                                        z3.Select(P, par(i)) <= z3.Select(P, c_)))),
            z3.ForAll([k_], z3.And(z3.Select(P, k_) >= GC.IMIN, z3.Select(P, k_) <= GC.IMAX)) if False else z3.BoolVal(True),
            a.bag == bag_add(old.bag, mkEntry(prio, val)))

    def push_havoc(it, fr):
        havoc_arr(it, fr, "pu")
        fr.locals["i"] = MInt(z3.Int(it.ctx.fresh_name("i")))
        for n in ("parent_i", "prio", "val", "parent_prio", "parent_val"):
            fr.locals.pop(n, None)

    def pop_inv(it, fr):
        a = fr.locals["self"].fields["buf"]
        old = it.ctx.ghost["old"]
        i = MInt.of(fr.locals["i"]).t
        m = MInt.of(fr.locals["new_size"]).t
        dp = MInt.of(fr.locals["displaced_prio"]).t
        P = a.cols[0]
        par = lambda x: (x - 1) / 2  # noqa
        root = mkEntry(z3.Select(old.cols[0], 0), z3.Select(old.cols[1], 0))
        disp = mkEntry(dp, fr.locals["displaced_val"].t)
        return z3.And(
            i >= 0, i < m, m == size - 1, m >= 1,
            z3.ForAll([k_], z3.Implies(z3.And(k_ >= 0, k_ < N), z3.Select(a.some, k_) == z3.And(k_ < m, k_ != i))),
            z3.ForAll([k_], z3.Implies(z3.And(k_ >= 1, k_ < m, k_ != i, par(k_) != i), z3.Select(P, par(k_)) <= z3.Select(P, k_))),
            z3.Implies(i > 0, z3.Select(P, par(i)) <= dp),
            z3.Implies(i > 0, z3.ForAll([c_], z3.Implies(z3.And(z3.Or(c_ == 2 * i + 1, c_ == 2 * i + 2), c_ < m), z3.Select(P, par(i)) <= z3.Select(P, c_)))),
            a.bag == bag_del(bag_del(old.bag, root), disp))

    def pop_havoc(it, fr):
        havoc_arr(it, fr, "po")
        fr.locals["i"] = MInt(z3.Int(it.ctx.fresh_name("i")))
        for n in ("left_i", "right_i", "left_elem", "right_elem", "left_prio", "left_val", "right_prio", "right_val", "child_i", "child_prio", "child_val"):
            fr.locals.pop(n, None)
    e.loop_specs[f"{QMOD}:PriorityQueue.push"] = {0: LoopSpec("i > 0", push_inv, push_havoc, modifies={"i", "parent_i", "prio", "val", "parent_prio", "parent_val"})}
    e.loop_specs[f"{QMOD}:PriorityQueue.pop"] = {0: LoopSpec("True", pop_inv, pop_havoc, modifies={
        "i", "left_i", "right_i", "left_elem", "right_elem", "left_prio", "left_val", "right_prio", "right_val", "child_i", "child_prio", "child_val"})}
    e.loop_specs[f"{QMOD}:PriorityQueue.discard_empty"] = {0: LoopSpec("elem in self.buf", lambda it, fr: z3.BoolVal(True), lambda it, fr: None, modifies={"elem"})}

    def pq_of(v):
        return isinstance(v, SObj) and v.cls.name == "PriorityQueue"

    def pq_push():
        def t(it):
            from pyvc import SOpq
            Q, q, old = mkq(it)
            return it.call_method(q, "push", [SOpq(val, "T"), MInt(prio)]), old

        def post(p):
            if is_panic(p):
                return size >= N
            if p.kind != "return" or not pq_of(p.value[0]):
                return z3.BoolVal(False)
            r, old = p.value
            a = r.fields["buf"]
            ns = MInt.of(r.fields["size"]).t
            return z3.And(size < N, ns == size + 1, wf(a, ns), heap(a, ns), a.bag == bag_add(old.bag, mkEntry(prio, val)))
        chk.prove_paths("PriorityQueue.push:panics<=>full;else-wf'/\\heap'/\\bag'==bag+{(priority,value)}", e.explore(t), post, func=f"{QMOD}:PriorityQueue.push")
    chk.section("pq-push", pq_push)

    def pq_pop():
        def t(it):
            Q, q, old = mkq(it)
            return it.call_method(q, "pop", []), old

        def post(p):
            if is_panic(p):
                return size <= 0
            if p.kind != "return":
                return z3.BoolVal(False)
            (rp, rv, r), old = p.value
            a = r.fields["buf"]
            ns = MInt.of(r.fields["size"]).t
            root = mkEntry(z3.Select(old.cols[0], 0), z3.Select(old.cols[1], 0))
            return z3.And(size > 0, ns == size - 1, wf(a, ns), heap(a, ns), MInt.of(rp).t == z3.Select(old.cols[0], 0), rv.t == z3.Select(old.cols[1], 0),
                          a.bag == bag_del(old.bag, root))
        chk.prove_paths("PriorityQueue.pop:panics<=>empty;else-returns-root/\\wf'/\\heap'/\\bag'==bag-{root}", e.explore(t), post, func=f"{QMOD}:PriorityQueue.pop")
    chk.section("pq-pop", pq_pop)

    def pq_misc():
        def t_peek(it):
            Q, q, old = mkq(it)
            return it.call_method(q, "peek", []), old

        def post_peek(p):
            if is_panic(p):
                return size <= 0
            if p.kind != "return":
                return z3.BoolVal(False)
            (rp, rv, r), old = p.value
            a = r.fields["buf"]
            return z3.And(size > 0, MInt.of(r.fields["size"]).t == size, MInt.of(rp).t == z3.Select(old.cols[0], 0), rv.t == z3.Select(old.cols[1], 0),
                          a.bag == old.bag, wf(a, size), heap(a, size))
        chk.prove_paths("PriorityQueue.peek:panics<=>empty;else-returns-root/\\queue-unchanged", e.explore(t_peek), post_peek, func=f"{QMOD}:PriorityQueue.peek")

        def t_len(it):
            Q, q, old = mkq(it)
            return it.builtins["len"].fn(q)
        chk.prove_paths("PriorityQueue.__len__==size", e.explore(t_len), lambda p: z3.BoolVal(False) if p.kind != "return" else MInt.of(p.value).t == size, func=f"{QMOD}:PriorityQueue.__len__")

        def t_empty(it):
            it.ctx.ghost["payload"], it.ctx.ghost["bag_sort"] = pl, Entry
            for h in PRE:
                it.ctx.assume(h)
            return it.call(it.lookup_global(e.module(QMOD), "empty_priority_queue"), [], {})

        def post_empty(p):
            if p.kind != "return" or not pq_of(p.value):
                return z3.BoolVal(False)
            ns = MInt.of(p.value.fields["size"]).t
            a = p.value.fields["buf"]
            return z3.And(ns == 0, wf(a, ns), heap(a, ns), a.bag == z3.K(Entry, z3.IntVal(0)))
        chk.prove_paths("empty_priority_queue:size==0/\\wf/\\empty-bag", e.explore(t_empty), post_empty, func=f"{QMOD}:empty_priority_queue")

        # root minimality by induction on the index (step VC)
        P = z3.Const("P", z3.ArraySort(z3.IntSort(), z3.IntSort()))
        hp = z3.ForAll([k_], z3.Implies(z3.And(k_ >= 1, k_ < size), z3.Select(P, (k_ - 1) / 2) <= z3.Select(P, k_)))
        j = z3.Int("j")
        chk.prove("lemma:heap=>root-minimal:induction-step", [hp, j >= 1, j < size, z3.Select(P, 0) <= z3.Select(P, (j - 1) / 2)], z3.Select(P, 0) <= z3.Select(P, j), func=f"{QMOD}:PriorityQueue.pop")
        chk.prove("lemma:heap=>root-minimal:parent-index-is-smaller-and-valid", [j >= 1, j < size], z3.And((j - 1) / 2 >= 0, (j - 1) / 2 < j), func=f"{QMOD}:PriorityQueue.pop")
        chk.must_fail("twin:heap-order-does-not-sort-the-array", [hp, size > 2], z3.Select(P, 1) <= z3.Select(P, 2))
    chk.section("pq-misc", pq_misc)

    def pq_next():
        def t_next(it):
            Q, q, old = mkq(it)
            return it.call_method(q, "__next__", []), old

        def post_next(p):
            if p.kind != "return":
                return z3.BoolVal(False)
            o, old = p.value
            if not isinstance(o, GOpt):
                return z3.BoolVal(False)
            if z3.is_false(z3.simplify(o.some)):
                return size == 0
            ((rp, rv), r) = o.payload
            ns = MInt.of(r.fields["size"]).t
            return z3.And(size > 0, MInt.of(rp).t == z3.Select(old.cols[0], 0), rv.t == z3.Select(old.cols[1], 0), ns == size - 1,
                          wf(r.fields["buf"], ns), heap(r.fields["buf"], ns))
        chk.prove_paths("PriorityQueue.__next__:yields-root-in-priority-order;nothing<=>empty;never-panics", e.explore(t_next), post_next, func=f"{QMOD}:PriorityQueue.__next__")
    chk.section("pq-next", pq_next)
    chk.timeout_ms = 60000
    from .C27_harness import SCRIPT
    chk.finders = {"PriorityQueue.": lambda: {"script": SCRIPT, "input": {"cap": 7, "which": "pq", "seed": chk.seed}},
                   "Stack.": lambda: {"script": SCRIPT, "input": {"cap": 7, "which": "stack", "seed": chk.seed}}}
    chk.expected_min_obligations = 40
    chk.use_engine(e)
