"""Native oracle for C25 (bounded layer), real compiler.

For every modifier list of length <= 3 over {dagger, control(q), control(q'), control(q, q'), control(arr), control(arr[0], arr[2]),
power(2), power(n)} a function `with <modifiers>: h(t)` is compiled; from the HUGR of the caller
we read the chain  LoadFunc -> modifier ops -> CallIndirect  and compare it with the source:
one op per modifier in source order, ControlModifier arity = number of control qubits, power
operand = the exponent, every captured qubit/control is an input AND an output of the call, every
wire around the call is well typed and every variable gets back the value handed back for IT.
"""
ORACLE = r'''
import itertools, os, sys, tempfile, importlib.util, shutil, json
from guppylang_internals.error import GuppyError
from hugr import ops, tys as ht

MODS = {"D": ("dagger", 0), "C1": ("control(c1)", 1), "C2": ("control(c1, c2)", 2), "C3": ("control(c2)", 1), "CA": ("control(ca)", 3), "CE": ("control(ca[0], ca[2])", 2), "P2": ("power(2)", 0), "PN": ("power(n)", 0)}
HEADER = """import guppylang
guppylang.enable_experimental_features()
from guppylang import guppy
from guppylang.std.quantum import qubit, h, t
from guppylang.std.builtins import array
from guppylang.std.num import nat
dagger = object(); control = object(); power = object()
"""

def program(mods, i):
    qs = set()
    for m in mods:
        if m == "C1": qs.add("c1")
        if m == "C2": qs |= {"c1", "c2"}
    # a control qubit may only be used by one control modifier
    return (f"@guppy\ndef f{i}(tq: qubit, c1: qubit, c2: qubit, ca: array[qubit, 3], n: nat) -> None:\n"
            f"    with {', '.join(MODS[m][0] for m in mods)}:\n        t(tq)\n")

def valid(mods):
    used = []
    for m in mods:
        if m == "C1": used += ["c1"]
        if m == "C2": used += ["c1", "c2"]
        if m == "C3": used += ["c2"]
        if m == "CA": used += ["ca"]
        if m == "CE": used += ["ca"]
    return len(used) == len(set(used))

def compile_all(modlists):
    src = HEADER + "\n".join(program(m, i) for i, m in enumerate(modlists))
    d = tempfile.mkdtemp(dir=os.environ.get("TMPDIR", "/var/tmp")); fn = os.path.join(d, "c25_progs.py")
    open(fn, "w").write(src)
    spec = importlib.util.spec_from_file_location("c25_progs", fn); m = importlib.util.module_from_spec(spec); sys.modules["c25_progs"] = m
    out = []
    try:
        spec.loader.exec_module(m)
        for i in range(len(modlists)):
            try:
                hh = getattr(m, f"f{i}").compile_function()
                hg = hh.modules[0] if hasattr(hh, "modules") else hh
                out.append(("ok", getattr(hg, "hugr", hg)))
            except GuppyError as e:
                out.append(("rejected", type(e.error).__name__))
            except Exception as ex:
                out.append(("error", repr(ex)[:300]))
    finally:
        shutil.rmtree(d, ignore_errors=True); sys.modules.pop("c25_progs", None)
    return out

SIG_PROBLEMS = []

def modifier_chain(hugr, fname):
    """ops between LoadFunc of the block body and the CallIndirect, with arities / operands"""
    fn = [n for n in hugr.descendants() if isinstance(hugr[n].op, ops.FuncDefn) and hugr[n].op.f_name == fname][0]
    calls = [n for n in hugr.descendants() if isinstance(hugr[n].op, ops.CallIndirect)]
    def inside(n):
        p = hugr[n].parent
        while p is not None:
            if p == fn: return True
            p = hugr[p].parent
        return False
    calls = [c for c in calls if inside(c)]
    if len(calls) != 1: raise RuntimeError(f"{len(calls)} indirect calls")
    call = calls[0]
    def src(n, port):
        for ip, outs in hugr.incoming_links(n):
            if ip.offset == port:
                return outs[0].node
        return None
    chain = []
    cur = src(call, 0)
    while cur is not None:
        op = hugr[cur].op
        nm = None
        if isinstance(op, ops.ExtOp): nm = op.op_def().name
        elif isinstance(op, ops.Custom): nm = op.op_name
        if isinstance(op, ops.LoadFunc):
            break
        if nm is None: raise RuntimeError("unexpected op in modifier chain: " + type(op).__name__)
        info = {"op": nm}
        args = getattr(op, "args", None) or []
        if nm == "ControlModifier":
            a0 = args[0]
            info["arity"] = getattr(a0, "n", None)
            # the op's type arguments must describe the function it wraps: args[1] lists the types the wrapped
            # function takes first and hands back (in that order), args[2] its remaining inputs
            try:
                fsrc = [outs[0] for ip, outs in hugr.incoming_links(cur) if ip.offset == 0][0]
                fty = hugr.port_type(fsrc)
                inout = [getattr(x, "ty", x) for x in getattr(args[1], "elems", [])]
                other = [getattr(x, "ty", x) for x in getattr(args[2], "elems", [])]
                if list(fty.input) != inout + other or list(fty.output) != inout:
                    SIG_PROBLEMS.append(f"ControlModifier wraps a function {[str(t_) for t_ in fty.input]} -> {[str(t_) for t_ in fty.output]} but its type arguments say inout={[str(t_) for t_ in inout]} other={[str(t_) for t_ in other]}")
            except Exception as ex:  # noqa
                SIG_PROBLEMS.append("cannot read the signature of a ControlModifier: " + repr(ex)[:120])
        if nm == "PowerModifier":
            e = src(cur, 1)
            eop = hugr[e].op if e is not None else None
            if isinstance(eop, ops.LoadConst):
                c = src(e, 0); v = hugr[c].op.val
                info["exp"] = getattr(v, "v", getattr(v, "val", str(v)))
            else:
                # follow conversions back to the function input
                k = e
                for _ in range(6):
                    if k is None or isinstance(hugr[k].op, ops.Input): break
                    k = src(k, 0)
                info["exp"] = "n" if k is not None and isinstance(hugr[k].op, ops.Input) else type(eop).__name__
        chain.append(info)
        cur = src(cur, 0)
    chain.reverse()        # innermost (applied first) ... outermost
    n_in = sum(1 for ip, outs in hugr.incoming_links(call) if ip.offset >= 0)
    n_out = sum(1 for op_, ins in hugr.outgoing_links(call) if op_.offset >= 0)
    return chain, n_in, n_out

def threading_problems(hugr, fname):
    """(a) every wire in the block holding the call connects ports of the same type (the indirect call's
    arguments are what the modified function value takes, its results are what the unpacking expects);
    (b) every variable that enters the block leaves it as the value handed back FOR IT: following output
    k+1 of the block backwards (array conversions, unpack/new_array element p <-> p, result j of the call
    <-> argument j of the call) ends at input k."""
    fn = [n for n in hugr.descendants() if isinstance(hugr[n].op, ops.FuncDefn) and hugr[n].op.f_name == fname][0]
    def inside(n):
        p = hugr[n].parent
        while p is not None:
            if p == fn: return True
            p = hugr[p].parent
        return False
    call = [n for n in hugr.descendants() if isinstance(hugr[n].op, ops.CallIndirect) and inside(n)][0]
    blk = hugr[call].parent
    msgs = []
    for n in hugr.children(blk):
        for op_, ins in hugr.outgoing_links(n):
            if op_.offset < 0: continue
            try: t1 = hugr.port_type(op_)
            except Exception: continue
            for ip in ins:
                try: t2 = hugr.port_type(ip)
                except Exception: continue
                if t1 is not None and t2 is not None and t1 != t2:
                    msgs.append(f"ill-typed wire {opname(hugr, n)}.out{op_.offset} : {t1} -> {opname(hugr, ip.node)}.in{ip.offset} : {t2}")
    kids = list(hugr.children(blk))
    # every element lent out of an array for the block (a subscripted control) is put back
    nb, nr = sum(1 for n in kids if opname(hugr, n) == "borrow"), sum(1 for n in kids if opname(hugr, n) == "return")
    if nb != nr:
        msgs.append(f"{nb} array elements are lent out around the call but {nr} are put back")
    inp = [n for n in kids if isinstance(hugr[n].op, ops.Input)][0]
    out = [n for n in kids if isinstance(hugr[n].op, ops.Output)][0]
    def src(n, port):
        for ip, outs in hugr.incoming_links(n):
            if ip.offset == port: return outs[0].node, outs[0].offset
        return None
    n_vars = sum(1 for ip, _ in hugr.incoming_links(out) if ip.offset >= 1)
    for k in range(n_vars):
        cur = src(out, k + 1); stack = []; steps = 0
        while cur is not None and steps < 50:
            n, off = cur; steps += 1
            op = hugr[n].op; nm_ = opname(hugr, n)
            if isinstance(op, ops.Input):
                if n == inp and off != k and not stack:
                    msgs.append(f"the value handed back for block variable {k} is the one that entered as variable {off}")
                break
            if isinstance(op, ops.CallIndirect): cur = src(n, off + 1)
            elif nm_ == "unpack": stack.append(off); cur = src(n, 0)
            elif nm_ == "new_array": cur = src(n, stack.pop() if stack else 0)
            elif nm_ in ("to_array", "from_array"): cur = src(n, 0)
            elif nm_ in ("borrow", "return") and off == 0: cur = src(n, 0)      # the array an element is lent out of / put back into
            else: break          # the body's own gates etc.: not a pure hand-back
    return msgs

def opname(hugr, n):
    op = hugr[n].op
    return op.op_def().name if isinstance(op, ops.ExtOp) else type(op).__name__

def expected(mods):
    """one op per modifier, in source order (the first modifier is the outermost)"""
    out = []
    for m in mods:
        if m == "D": out.append({"op": "DaggerModifier"})
        elif m[0] == "C": out.append({"op": "ControlModifier", "arity": MODS[m][1]})
        else: out.append({"op": "PowerModifier", "exp": 2 if m == "P2" else "n"})
    return out

def model_known(mods):
    """what guppylang 0.21 emits (recorded deviation): modifiers are kept in one list per kind, so
    the ops come out as Dagger (only for an odd number of daggers), then every Power, then every
    Control, each group in source order"""
    out = []
    if sum(1 for m in mods if m == "D") % 2 == 1: out.append({"op": "DaggerModifier"})
    out += [{"op": "PowerModifier", "exp": 2 if m == "P2" else "n"} for m in mods if m[0] == "P"]
    out += [{"op": "ControlModifier", "arity": MODS[m][1]} for m in mods if m[0] == "C"]
    return out

def norm(chain):
    return [{k: (int(v) if isinstance(v, (int,)) or (isinstance(v, str) and v.isdigit()) else v) for k, v in c.items()} for c in chain]

def judge(mods, res, i):
    st, h = res
    if st == "rejected": return None
    if st != "ok": return "compiler crashed: " + str(h)
    del SIG_PROBLEMS[:]
    try:
        chain, n_in, n_out = modifier_chain(h, f"f{i}")
    except RuntimeError as e:
        return "cannot read the modifier chain: " + str(e)
    chain = norm(chain)
    if SIG_PROBLEMS:
        return SIG_PROBLEMS[0]
    # "wrapped ... in source order": the body is wrapped by the first modifier first, so along the
    # chain LoadFunc -> ... -> call the ops appear in source order
    want = expected(mods)
    n_ctrl = sum(1 for m in mods if m[0] == "C")
    msgs = []
    # threading: the call consumes the function, one array per control and the captured target, and hands controls and target back
    if n_in != 1 + n_ctrl + 1: msgs.append(f"call has {n_in} value inputs, expected {2 + n_ctrl}")
    if n_out != n_ctrl + 1: msgs.append(f"call hands back {n_out} values, expected {n_ctrl + 1}")
    try:
        msgs += threading_problems(h, f"f{i}")[:2]
    except Exception as ex:  # noqa
        msgs.append("cannot follow the wires around the call: " + repr(ex)[:160])
    if chain != want:
        # the recorded deviation, recognised exactly: grouped Dagger, Power, Control; an even number of daggers cancels
        if chain == model_known(mods) and not msgs:
            return "KNOWN:" + f"modifier ops {chain} (innermost first) instead of one per modifier in source order {want}"
        msgs.append(f"modifier ops {chain} (innermost first), expected {want}")
    return "; ".join(msgs) if msgs else None

def chain_grouped(chain, known):
    return chain == known or chain == list(reversed(known)) or [c["op"] for c in chain] == [c["op"] for c in known]
'''

DRIVER = r'''
I_ = INPUT
lists = [list(m) for n in range(1, I_["max_len"] + 1) for m in itertools.product(sorted(MODS), repeat=n) if valid(m)]
mine = lists[I_["chunk"]::I_["nchunks"]]
res = compile_all(mine)
bad = None; judged = 0; known = None; rejected = 0
for j, (mods, r) in enumerate(zip(mine, res)):
    if r[0] == "rejected": rejected += 1; continue
    judged += 1
    msg = judge(mods, r, j)
    if msg is None: continue
    if msg.startswith("KNOWN:"):
        known = known or {"modifiers": [MODS[m][0] for m in mods], "detail": msg[6:]}
        continue
    if bad is None: bad = {"modifiers": [MODS[m][0] for m in mods], "mods": mods, "detail": msg}
print(json.dumps({"violates": bad is not None, "evaluations": judged, "rejected": rejected, "total": len(lists), "witness": bad, "detail": bad and bad["detail"], "known": known}))
'''

REPLAY_ONE = r'''
I_ = INPUT
r = compile_all([I_["mods"]])[0]
msg = judge(I_["mods"], r, 0)
print(json.dumps({"violates": msg is not None, "detail": msg, "program": program(I_["mods"], 0)}))
'''
