"""Native oracle for C05 (bounded stand-in and counterexample finder), on the real compiler.

Every generated function body is one expression statement built from operators, short-circuit
operators, chained comparisons, conditional expressions, tuples, subscripts and calls whose
operands are calls  b_i()/n_i()  to declared functions (each a side effect).  The function is
compiled to HUGR with the real pipeline.  From the HUGR we read, for every path through the
function's control-flow graph, the sequence of `Call` nodes in the order fixed by the state-order
edges (every call must be on the order chain of its block).  The SET of these call sequences must
equal the set of Python evaluation traces of the same expression over all return values of the
atoms (bool atoms: True/False, int atoms: 0..2).
"""
ORACLE = r'''
import itertools, os, sys, tempfile, importlib.util, shutil, json
from guppylang_internals.error import GuppyError
from hugr import ops

NB, NN = 4, 4            # bool atoms b0..b3, int atoms n0..n3
HEADER = "from guppylang import guppy\nfrom guppylang.std.builtins import array\n" + "".join(
    f"@guppy.declare\ndef b{i}() -> bool: ...\n" for i in range(NB)) + "".join(
    f"@guppy.declare\ndef n{i}() -> int: ...\n" for i in range(NN)) + (
    "@guppy.declare\ndef use_b(x: bool) -> None: ...\n@guppy.declare\ndef use_n(x: int) -> None: ...\n"
    "@guppy.declare\ndef add3(x: int, y: int, z: int) -> int: ...\n"
    "@guppy.struct\nclass S:\n    v: int\n    @guppy\n    def __radd__(self: 'S', other: int) -> int:\n        return other\n"
    "@guppy.declare\ndef s0() -> S: ...\n"
    "@guppy.declare\ndef bump3(x: array[int, 3]) -> None: ...\n@guppy.declare\ndef bump2(x: array[int, 2]) -> None: ...\n"
    "from collections.abc import Callable\n@guppy.declare\ndef p0() -> Callable[[int], int]: ...\n@guppy.declare\ndef p1() -> Callable[[int, int], int]: ...\n")

def py_traces(expr, stmt=False):
    """all Python evaluation traces of `expr` (atoms b_i()/n_i() record themselves)"""
    atoms = sorted(set(__import__("re").findall(r"\b([bnsp]\d)\(\)", expr)))
    doms = [([True, False] if a[0] == "b" else [0, 1, 2] if a[0] == "n" else ["S"] if a[0] == "s" else ["F"]) for a in atoms]
    out = set()
    class SS:
        def __radd__(self, o): return o
    for vals in itertools.product(*doms):
        trace = []
        env = {}
        for a, v in zip(atoms, vals):
            env[a] = (lambda a=a, v=v: (trace.append(a), SS() if v == "S" else (lambda *xs: xs[0]) if v == "F" else v)[1])
        env["add3"] = lambda x, y, z: (trace.append("add3"), x + y + z)[1]
        class ML(list):
            def __getitem__(self, i): return list.__getitem__(self, i % len(self))
            def __setitem__(self, i, v): list.__setitem__(self, i % len(self), v)
        env["array"] = lambda *xs: ML(xs)
        env["use_b"] = env["use_n"] = lambda x: None
        if stmt:
            env["xs"] = ML([0, 0, 0]); env["m"] = ML([ML([0, 0, 0]), ML([0, 0, 0])])
            env["t"] = ML([ML([ML([0, 0]), ML([0, 0])]), ML([ML([0, 0]), ML([0, 0])])])
            env["bump2"] = env["bump3"] = lambda x: None
            exec(expr, env)
        else:
            eval(expr, env)
        out.add(tuple(trace))
    return out

import ast as _ast

def model_traces(expr, lift, reflect, subidx=False):
    """Evaluation traces under the KNOWN deviations of guppylang 0.21 (used only to recognise the
    recorded findings; with lift=reflect=False this is Python's semantics):
      lift     short-circuit / conditional sub-expressions in operand position are built into
               earlier basic blocks, i.e. evaluated before the operands to their left;
      reflect  a binary operator dispatched to the right operand's reflected method passes
               (right, left) as call arguments, so the right operand is evaluated first."""
    tree = _ast.parse(expr, mode="eval").body
    atoms = sorted({n.func.id for n in _ast.walk(tree) if isinstance(n, _ast.Call) and isinstance(n.func, _ast.Name) and n.func.id[0] in "bnsp" and n.func.id[1:].isdigit()})
    doms = [([True, False] if a[0] == "b" else [0, 1, 2] if a[0] == "n" else ["S"] if a[0] == "s" else ["F"]) for a in atoms]
    out = set()
    import operator
    BIN = {_ast.Add: operator.add, _ast.Sub: operator.sub, _ast.Mult: operator.mul, _ast.Pow: operator.pow}
    CMP = {_ast.Lt: operator.lt, _ast.LtE: operator.le, _ast.Gt: operator.gt, _ast.GtE: operator.ge, _ast.Eq: operator.eq, _ast.NotEq: operator.ne}
    for vals in itertools.product(*doms):
        env = dict(zip(atoms, vals)); trace = []
        def is_sc(n): return isinstance(n, _ast.BoolOp) or (isinstance(n, _ast.Compare) and len(n.comparators) > 1) or isinstance(n, _ast.IfExp)
        def hoist(n):
            """ExprBuilder: replace lifted sub-expressions (in traversal order) by their values"""
            if is_sc(n): return _ast.Constant(value=branchy(n))
            for f, v in _ast.iter_fields(n):
                if isinstance(v, _ast.AST): setattr(n, f, hoist(v))
                elif isinstance(v, list): setattr(n, f, [hoist(x) if isinstance(x, _ast.AST) else x for x in v])
            return n
        def full(n):
            import copy
            n = copy.deepcopy(n)
            if lift: n = hoist(n)
            return ev(n)
        def branchy(n):
            if isinstance(n, _ast.BoolOp):
                r = None
                for v in n.values:
                    r = bool(branchy(v) if is_sc(v) or isinstance(v, _ast.UnaryOp) else full(v))
                    if isinstance(n.op, _ast.And) and not r: return False
                    if isinstance(n.op, _ast.Or) and r: return True
                return r
            if isinstance(n, _ast.UnaryOp) and isinstance(n.op, _ast.Not): return not branchy(n.operand)
            if isinstance(n, _ast.IfExp):
                return full(n.body) if branchy(n.test) else full(n.orelse)
            if isinstance(n, _ast.Compare) and len(n.comparators) > 1:
                l = full(n.left)
                for op, r in zip(n.ops, n.comparators):
                    rv = full(r)
                    if not CMP[type(op)](l, rv): return False
                    l = rv
                return True
            return full(n)
        def ev(n):
            if isinstance(n, _ast.Constant): return n.value
            if isinstance(n, _ast.Call):
                if not isinstance(n.func, _ast.Name):
                    # call through a function-valued expression: callee first, then the arguments
                    ev(n.func)
                    args = [ev(a) for a in n.args]
                    return args[0]
                nm = n.func.id
                args = [ev(a) for a in n.args]
                if nm in env: trace.append(nm); return env[nm]
                if nm == "add3": trace.append("add3"); return sum(args)
                if nm == "array": return list(args)
                return None
            if isinstance(n, _ast.BinOp):
                refl = isinstance(n.right, _ast.Call) and getattr(n.right.func, "id", "")[:1] == "s"
                if refl and reflect: r = ev(n.right); l = ev(n.left); return l
                l = ev(n.left); r = ev(n.right)
                return l if refl else BIN[type(n.op)](l, r)
            if isinstance(n, _ast.UnaryOp):
                v = ev(n.operand); return (not v) if isinstance(n.op, _ast.Not) else -v
            if isinstance(n, _ast.Compare):
                l = ev(n.left)
                for op, r in zip(n.ops, n.comparators):
                    rv = ev(r)
                    if not CMP[type(op)](l, rv): return False
                    l = rv
                return True
            if isinstance(n, _ast.BoolOp):
                r = None
                for v in n.values:
                    r = ev(v)
                    if isinstance(n.op, _ast.And) and not r: return r
                    if isinstance(n.op, _ast.Or) and r: return r
                return r
            if isinstance(n, _ast.IfExp): return ev(n.body) if ev(n.test) else ev(n.orelse)
            if isinstance(n, _ast.Tuple): return tuple(ev(e) for e in n.elts)
            if isinstance(n, _ast.Subscript):
                if subidx and not isinstance(n.slice, _ast.Constant):
                    # recorded deviation: the index of a subscript on an rvalue is compiled first
                    i = ev(n.slice); v = ev(n.value); return v[i % len(v)]
                v = ev(n.value); i = ev(n.slice); return v[i % len(v)]
            raise RuntimeError("model: " + type(n).__name__)
        full(tree)
        out.add(tuple(trace))
    return out

def hugr_traces(hugr, fname):
    """call sequences along all paths of the function's CFG, ordered by state-order edges"""
    fn = [n for n in hugr.descendants() if isinstance(hugr[n].op, ops.FuncDefn) and hugr[n].op.f_name == fname][0]
    cfgs = [c for c in hugr.children(fn) if isinstance(hugr[c].op, ops.CFG)]
    if len(cfgs) != 1: raise RuntimeError("expected one CFG")
    cfg = cfgs[0]
    blocks = list(hugr.children(cfg))
    entry = blocks[0]
    def callee(n):
        for ip, outs in hugr.incoming_links(n):
            for o in outs:
                op = hugr[o.node].op
                if isinstance(op, (ops.FuncDefn, ops.FuncDecl)): return op.f_name
        return "?"
    def block_seq(b):
        if not isinstance(hugr[b].op, ops.DataflowBlock): return ()
        kids = list(hugr.children(b))
        for k in kids:
            # nested regions are fine as long as no call happens inside them (e.g. the Conditional
            # that converts a bool into a branch tag)
            stack = list(hugr.children(k))
            while stack:
                d = stack.pop()
                if isinstance(hugr[d].op, (ops.Call, ops.CallIndirect)):
                    raise RuntimeError("call inside a nested region: " + type(hugr[k].op).__name__)
                stack += list(hugr.children(d))
        calls = [k for k in kids if isinstance(hugr[k].op, ops.Call)]
        # order edges: port offset -1
        nxt = {}
        for k in kids:
            for op_, ins in hugr.outgoing_links(k):
                if op_.offset == -1:
                    for i in ins: nxt.setdefault(k, []).append(i.node)
        seq, cur, seen = [], kids[0], set()
        while True:
            succs = [s for s in nxt.get(cur, []) if s not in seen]
            if not succs: break
            if len(succs) > 1: raise ValueError("order edges fork")
            cur = succs[0]; seen.add(cur)
            if isinstance(hugr[cur].op, ops.Call): seq.append(callee(cur))
        if len(seq) != len(calls): raise ValueError(f"{len(calls) - len(seq)} call(s) not on the state-order chain of their block")
        return tuple(seq)
    succ = {}
    for b in blocks:
        succ[b] = [i.node for op_, ins in hugr.outgoing_links(b) for i in ins]
    traces = set()
    def walk(b, acc, depth):
        if depth > 60: raise RuntimeError("loop")
        acc = acc + block_seq(b)
        if isinstance(hugr[b].op, ops.ExitBlock) or not succ[b]:
            traces.add(acc); return
        for s in succ[b]: walk(s, acc, depth + 1)
    walk(entry, (), 0)
    return traces

def compile_all(exprs):
    src = [HEADER]
    for i, (kind, ex) in enumerate(exprs):
        if kind == "s":      # a statement over two borrowed arrays
            src.append(f"@guppy\ndef f{i}(xs: array[int, 3], m: array[array[int, 3], 2], t: array[array[array[int, 2], 2], 2]) -> None:\n    {ex}\n")
        else:
            src.append(f"@guppy\ndef f{i}() -> None:\n    use_{kind}({ex})\n")
    d = tempfile.mkdtemp(dir=os.environ.get("TMPDIR", "/var/tmp")); fn = os.path.join(d, "c05_progs.py")
    open(fn, "w").write("\n".join(src))
    spec = importlib.util.spec_from_file_location("c05_progs", fn); m = importlib.util.module_from_spec(spec); sys.modules["c05_progs"] = m
    out = []
    try:
        spec.loader.exec_module(m)
        for i in range(len(exprs)):
            try:
                h = getattr(m, f"f{i}").compile_function()
                hg = h.modules[0] if hasattr(h, "modules") else h
                out.append(("ok", getattr(hg, "hugr", hg)))
            except GuppyError as e:
                out.append(("rejected", str(type(e.error).__name__)))
            except Exception as ex:
                out.append(("error", repr(ex)[:200]))
    finally:
        shutil.rmtree(d, ignore_errors=True); sys.modules.pop("c05_progs", None)
    return out

def judge(kind, ex, res, i):
    st, h = res
    if st != "ok":
        return None if st == "rejected" else f"compiler crashed: {h}"
    try:
        got = hugr_traces(h, f"f{i}")
    except ValueError as e:
        return f"side effects are not totally ordered: {e}"
    except RuntimeError as e:
        return "SKIP:" + str(e)          # shape outside the oracle (nested containers)
    # calls to library functions (e.g. int.__pow__) are not the side effects being tracked
    strip = lambda t: tuple(x for x in t if x == "add3" or (len(x) == 2 and x[0] in "bnsp" and x[1].isdigit()))
    got = {strip(t) for t in got}
    want = py_traces(ex, stmt=(kind == "s"))
    if kind == "s":
        # statements (augmented / subscript assignments): no recorded deviation applies
        if got != want:
            return f"call sequences differ from Python's evaluation traces: HUGR-only {sorted(got - want)[:3]}, Python-only {sorted(want - got)[:3]}"
        return None
    if model_traces(ex, False, False) != want:
        raise AssertionError("oracle self-check failed for " + ex)
    if got != want:
        extra, missing = sorted(got - want)[:3], sorted(want - got)[:3]
        msg = f"call sequences differ from Python's evaluation traces: HUGR-only {extra}, Python-only {missing}"
        # recognise the two recorded deviations exactly (anything else is a new violation)
        for lf, rf, sf in sorted(itertools.product((False, True), repeat=3), key=sum):
            if (lf or rf or sf) and got == model_traces(ex, lf, rf, sf):
                kid = "+".join(n for n, f in (("lift", lf), ("reflect", rf), ("subscript", sf)) if f)
                return "KNOWN:" + kid + ":" + msg
        return msg
    return None

def exprs(tier):
    B = [f"b{i}()" for i in range(NB)]
    N = [f"n{i}()" for i in range(NN)]
    out = []
    def bools(depth, pool_b, pool_n):
        """boolean expressions using fresh atoms from the pools (each atom at most once)"""
        if not pool_b and len(pool_n) < 2: return
        if pool_b: yield pool_b[0], pool_b[1:], pool_n
        if len(pool_n) >= 2:
            yield f"{pool_n[0]} < {pool_n[1]}", pool_b, pool_n[2:]
        if len(pool_n) >= 3:
            yield f"{pool_n[0]} < {pool_n[1]} <= {pool_n[2]}", pool_b, pool_n[3:]
            yield f"{pool_n[0]} < {pool_n[1]} + {pool_n[2]}", pool_b, pool_n[3:]
        if len(pool_n) >= 4:
            yield f"{pool_n[0]} < {pool_n[1]} <= {pool_n[2]} != {pool_n[3]}", pool_b, pool_n[4:]
        if depth == 0: return
        for l, pb, pn in bools(depth - 1, pool_b, pool_n):
            yield f"not ({l})", pb, pn
            for r, pb2, pn2 in bools(depth - 1, pb, pn):
                yield f"({l}) and ({r})", pb2, pn2
                yield f"({l}) or ({r})", pb2, pn2
                for e, pb3, pn3 in bools(0, pb2, pn2):
                    yield f"({r}) if ({l}) else ({e})", pb3, pn3
    seen = set()
    for ex, _, _ in bools(2 if tier == "thorough" else 1, B, N):
        if ex not in seen: seen.add(ex); out.append(("b", ex))
    # depth-2 selection for the quick tier
    if tier != "thorough":
        k = 0
        for ex, _, _ in bools(2, B, N):
            if ex in seen: continue
            k += 1
            if k % 17 == 0: seen.add(ex); out.append(("b", ex))
    # integer-valued shapes: operands left to right, arguments before the call, tuples, subscripts, conditional expressions
    ints = ["n0() + n1() * n2()", "add3(n0(), n1(), n2())", "add3(n0(), n1() if b0() else n2(), n3())", "(n0(), n1(), n2())[1]",
            "array(n0(), n1(), n2())[n3()]", "n0() if b0() and b1() else n1()", "n0() + (n1() if b0() else n2())", "-n0() + n1()",
            "add3(n0(), n1(), n2()) + n3()", "n0() + s0()", "(n0() if b0() else n1()) + (n2() if b1() else n3())",
            "n0() + (1 if n1() < n2() < n3() else 2)", "add3(n0(), 1 if b0() or b1() else 2, n1())", "n0() - n1() - n2()", "n0() ** 2 + n1()",
            "p0()(n0())", "p1()(n0(), n1())", "p0()(n0()) + n1()", "add3(n0(), p0()(n1()), n2())", "n0() + p1()(n1(), n2())",
            "array(n0(), n1())[n2()] + n3()", "(n0(), n1())[0] + n2()", "n0() + array(n1(), n2())[0]"]
    out += [("n", e) for e in ints]
    # statements: an index expression is evaluated once, container/index before the right-hand side
    out += [("s", e) for e in ["xs[n0()] += n1()", "xs[n0()] = n1()", "m[n0()][n1()] += n2()", "xs[n0()] -= xs[n1()]", "xs[n0() + n1()] *= 2", "m[n0()][1] += add3(n1(), n2(), n3())",
                               "xs[1] += n0()", "xs[n0()] += 1 if b0() else 2",
                               # borrowed (nested) subscripts and deep assignments: the write-back re-uses the index, it does not re-evaluate it
                               "bump3(m[n0()])", "bump2(t[n0()][n1()])", "bump2(t[n0()][0])", "t[n0()][0][1] = n1()", "t[n0()][n1()][n2()] = n3()",
                               "t[n0()][n1()][0] += n2()", "bump2(t[add3(n0(), n1(), n2())][n3()])"]]
    out += [("b", e) for e in ["n0() + n1() < n2() * n3()", "b0() and n0() < n1() < n2()", "n0() < n1() < n2() or b0()", "not (n0() < n1() <= n2() < n3())",
                               "(n0() < n1()) == (n2() < n3())", "b0() if n0() < n1() < n2() else b1()", "n0() in array(n1(), n2())" ]]
    return out
'''

DRIVER = r'''
I_ = INPUT
all_ = exprs(I_["tier"])
mine = list(enumerate(all_))[I_["chunk"]::I_["nchunks"]]
bad = None; judged = 0; rejected = 0; skipped = []
known = I_.get("known", [])
knownhits = {}
B = 120
for off in range(0, len(mine), B):
    batch = mine[off:off + B]
    res = compile_all([e for _, e in batch])
    for j, ((gi, (kind, ex)), r) in enumerate(zip(batch, res)):
        if r[0] == "rejected": rejected += 1; continue
        msg = judge(kind, ex, r, j)
        if msg is not None and msg.startswith("SKIP:"):
            skipped.append(ex); continue
        judged += 1
        if msg is None: continue
        if msg.startswith("KNOWN:"):
            _, kid, rest = msg.split(":", 2)
            for k in kid.split("+"):
                knownhits.setdefault(k, {"expr": ex, "detail": rest})
            continue
        if bad is None: bad = {"expr": ex, "kind": kind, "detail": msg}
print(json.dumps({"violates": bad is not None, "evaluations": judged, "rejected": rejected, "total": len(all_), "witness": bad, "detail": bad and bad["detail"], "known": knownhits, "skipped": skipped}))
'''

REPLAY_ONE = r'''
I_ = INPUT
r = compile_all([(I_["kind"], I_["expr"])])[0]
msg = judge(I_["kind"], I_["expr"], r, 0)
if msg is not None and msg.startswith("SKIP:"): msg = None
print(json.dumps({"violates": msg is not None,"detail": msg, "expr": I_["expr"], "python_traces": sorted(py_traces(I_["expr"], stmt=(I_["kind"] == "s")))[:6]}))
'''
