"""C23 — Comptime tracing leaves the user's module untouched.

Functions under contract: tracing.builtins_mock.mock_builtins (generator context manager, executed
through Python's `with` protocol by inline expansion at its `yield`), and the call site in
tracing.function.trace_function.  `f.__globals__` is a dictionary whose three shadowed names
(float, int, len) are each absent, bound to an opaque user value, or bound to the builtin object
itself (all 27 combinations, a complete enumeration of presence and identity); other keys are opaque too.  The `with` body is arbitrary code that leaves the
dictionary as it found it (nested well-behaved tracing, by induction) and may raise.
"""
import ast
import itertools
import z3

from pyvc import SObj, ClassVal, Builtin, PyRaise
from .common import mk_engine

TITLE = "mock_builtins restores f.__globals__ exactly on normal and exceptional exit, for every combination of user bindings, also nested"
MOD = "guppylang_internals.tracing.builtins_mock"
NAMES = ("float", "int", "len")

REPLAY = r'''
import guppylang_internals.tracing.builtins_mock as M
I = INPUT
g = {"other": object()}
import builtins
for n in I["present"]:
    if n.endswith("=b"): g[n[:-2]] = getattr(builtins, n[:-2])
    else: g[n] = ("user", n)
before = dict(g)
class F: pass
f = F(); f.__globals__ = g
class Boom(Exception): pass
try:
    with M.mock_builtins(f):
        if I["nested"]:
            try:
                with M.mock_builtins(f):
                    if I["inner_raises"]: raise Boom()
            except Boom:
                pass
        if I["raises"]: raise Boom()
except Boom:
    pass
same = set(g) == set(before) and all(g[k] is before[k] for k in before)
print(json.dumps({"violates": not same, "after": sorted(map(str, g.items())), "before": sorted(map(str, before.items()))}))
'''


def run(chk):
    e = mk_engine(chk)
    e.func_info(MOD, "mock_builtins")
    e.func_info("guppylang_internals.tracing.function", "trace_function")
    raises = z3.Bool("body_raises")
    inner_raises = z3.Bool("inner_raises")
    # every name is absent (-), bound to a user object (u) or bound to the very builtin (b), e.g.
    # `from builtins import int`: 27 combinations, a complete enumeration of the identity cases
    for states in itertools.product("-ub", repeat=3):
        present = tuple(f"{n}={st}" if st == "b" else n for n, st in zip(NAMES, states) if st != "-")
        for nested in (False, True):
            def t(it, present=present, nested=nested, states=states):
                m = e.module(MOD)
                g = {"other": SObj(ClassVal("UserObj"), {})}
                for n, st in zip(NAMES, states):
                    if st == "u":
                        g[n] = SObj(ClassVal("UserBinding"), {"name": n})
                    elif st == "b":
                        g[n] = it.exec_snippet(m, f"v = getattr(builtins, {n!r})")["v"]
                before = dict(g)
                f = SObj(ClassVal("function"), {"__globals__": g})

                def inner():
                    if it.ctx.branch(inner_raises):
                        raise PyRaise(it.make_exc("ValueError", "inner"))

                def body():
                    # the mocks are visible inside the block
                    seen = {n: g.get(n) for n in NAMES}
                    it.ctx.ghost["seen"] = seen
                    if nested:
                        it.exec_snippet(m, "try:\n    with mock_builtins(f):\n        inner()\nexcept ValueError:\n    pass\n",
                                        {"f": f, "inner": Builtin("inner", inner)})
                    if it.ctx.branch(raises):
                        raise PyRaise(it.make_exc("RuntimeError", "boom"))
                try:
                    it.exec_snippet(m, "with mock_builtins(f):\n    body()\n", {"f": f, "body": Builtin("body", body)})
                finally:
                    it.ctx.ghost["g"], it.ctx.ghost["before"] = g, before
                return None
            paths = e.explore(t)

            def post(p, present=present):
                g, before = p.ctx.ghost["g"], p.ctx.ghost["before"]
                same = set(g) == set(before) and all(g[k] is before[k] for k in before)
                seen = p.ctx.ghost.get("seen", {})
                mocked = all(isinstance(seen.get(n), (ClassVal,)) or seen.get(n).__class__.__name__ == "FuncVal" for n in NAMES)
                if p.kind == "raise":
                    return z3.And(raises, z3.BoolVal(same and mocked and p.raised(e, "RuntimeError")))
                if p.kind == "return":
                    return z3.And(z3.Not(raises), z3.BoolVal(same and mocked))
                return z3.BoolVal(False)

            def rp(m, present=present, nested=nested):
                tv = lambda b: z3.is_true(m.eval(b, model_completion=True))  # noqa
                return {"script": REPLAY, "input": {"present": list(present), "nested": nested, "raises": tv(raises), "inner_raises": tv(inner_raises)}}
            chk.prove_paths(f"mock_builtins[user-bindings={'+'.join(present) or 'none'},nested={nested}]:globals-restored(normal+exceptional)/\\mocks-visible-inside/\\exception-propagates",
                            paths, post, func=f"{MOD}:mock_builtins", replay=rp)
            chk.record(f"mock_builtins[{'+'.join(present) or 'none'},nested={nested}]:normal-and-raising-exits-explored",
                       {p.kind for p in paths} == {"raise", "return"}, str([p.kind for p in paths]), kind="reachability")

    # ---- call site: the user's function only runs inside `with ... mock_builtins(python_func)`
    fm = e.module("guppylang_internals.tracing.function")
    tf = fm.find("trace_function")
    calls = [n for n in ast.walk(tf) if isinstance(n, ast.Call) and isinstance(n.func, ast.Name) and n.func.id == "python_func"]
    guarded = []
    for w in ast.walk(tf):
        if isinstance(w, ast.With) and any(isinstance(i.context_expr, ast.Call) and ast.unparse(i.context_expr) == "mock_builtins(python_func)" for i in w.items):
            guarded += [n for b in w.body for n in ast.walk(b) if n in calls]
    chk.record("trace_function:every-call-of-python_func-is-inside-with-mock_builtins(python_func)", bool(calls) and len(guarded) == len(calls),
               f"calls at lines {[c.lineno for c in calls]}, guarded {[c.lineno for c in guarded]}", func="guppylang_internals.tracing.function:trace_function",
               backend="structural(AST containment)")
    # ---- frame: nothing else in the tracing package touches __globals__
    import glob
    import os
    offenders = []
    for path in sorted(glob.glob(os.path.join(chk.repo, "guppylang-internals/src/guppylang_internals/tracing/*.py"))):
        src = open(path).read()
        for n in ast.walk(ast.parse(src)):
            if isinstance(n, ast.Attribute) and n.attr in ("__globals__", "__builtins__") and not path.endswith("builtins_mock.py"):
                offenders.append(f"{os.path.basename(path)}:{n.lineno}")
    chk.record("tracing-package:only-mock_builtins-touches-__globals__", not offenders, str(offenders), func=f"{MOD}:mock_builtins", backend="structural(scan)")
    chk.must_fail("twin:body-may-raise", [], z3.Not(raises))
    chk.expected_min_obligations = 110
    chk.assumptions += ["the traced body itself leaves f.__globals__ as it found it (user code assigning its own globals is outside the property); nested tracing is covered by induction on the nesting depth with this contract as hypothesis (one nesting level is additionally executed)",
                        "Python's `with` protocol and @contextmanager semantics as implemented by pyvc (body runs at the yield; an exception in the body is raised at the yield; finally blocks run)",
                        "set_tracing_state / exception_hook restore interpreter-internal state only on normal exit; they do not touch module globals and are not part of this property"]
    chk.use_engine(e)
