"""Native whole-program oracle for C06 (bounded stand-in and counterexample finder).

Generates Guppy function bodies in the CORE FRAGMENT named by the property — assignments (moves),
owned and borrowed calls, if/else, while, break/continue/return, tuples, struct fields — over
qubit-typed places, runs the real `check()` on each and compares accept/reject with a REFERENCE
that shares no code with guppylang: a collecting semantics on the program's own syntax tree over
states  leaf place -> {holds a live qubit, holds nothing}  that follows every branch both ways
(branch conditions are ignored) and iterates loops to a fixpoint.

Reference rules (the path condition of the property):
  create / assign a leaf   the leaf must hold nothing (otherwise a live qubit is silently discarded)
  consume / move out       the leaf must hold a live qubit; afterwards it holds nothing
  borrow (h, cx)           the leaf must hold a live qubit; it still does afterwards; the two
                           arguments of one call must be different leaves
  return / fall off the end every local and owned leaf holds nothing (nothing leaks), every borrowed
                           parameter still holds its qubit; a value-returning function returns on
                           every path
The real checker must accept exactly the programs for which no rule is violated on any path.
"""
ORACLE = r'''
import itertools, os, sys, tempfile, importlib.util, shutil, json, random
from guppylang_internals.error import GuppyError

HEADER = """from guppylang import guppy
from guppylang.std.builtins import owned
from guppylang.std.quantum import qubit, h, cx, discard

@guppy.struct
class P:
    a: qubit
    b: qubit

"""
L, N = "L", "N"          # holds a live qubit / holds nothing
VARS = ["q", "r"]        # plain locals
LEAVES_OF = {"q": ["q"], "r": ["r"], "p": ["p"], "o": ["o"], "t": ["t.0", "t.1"], "s": ["s.a", "s.b"]}
TEXT = {"t.0": "t[0]", "t.1": "t[1]"}

def txt(x): return TEXT.get(x, x)

# ---- program representation: nested tuples
#  ("new", leaf) ("borrow", leaf) ("borrow2", leaf, leaf) ("consume", leaf) ("move", leaf, leaf)
#  ("pack", a, b) t = (a, b)   ("unpack", a, b) a, b = t   ("mk", a, b) s = P(a, b)   ("movevar", dst, src) whole-variable move t2 = t is not generated
#  ("if", then, else|None) ("while", body) ("break",) ("continue",) ("ret",) ("retv", leaf)

def render(stmts, ind=1):
    out, pad = [], "    " * ind
    for s in stmts:
        k = s[0]
        if k == "new": out.append(f"{pad}{txt(s[1])} = qubit()")
        elif k == "borrow": out.append(f"{pad}h({txt(s[1])})")
        elif k == "borrow2": out.append(f"{pad}cx({txt(s[1])}, {txt(s[2])})")
        elif k == "consume": out.append(f"{pad}discard({txt(s[1])})")
        elif k == "move": out.append(f"{pad}{txt(s[1])} = {txt(s[2])}")
        elif k == "seti": out.append(f"{pad}{txt(s[1])} = 5")
        elif k == "pack": out.append(f"{pad}t = ({txt(s[1])}, {txt(s[2])})")
        elif k == "unpack": out.append(f"{pad}{txt(s[1])}, {txt(s[2])} = t")
        elif k == "mk": out.append(f"{pad}s = P({txt(s[1])}, {txt(s[2])})")
        elif k == "if":
            out.append(f"{pad}if b:"); out += render(s[1], ind + 1)
            if s[2] is not None:
                out.append(f"{pad}else:"); out += render(s[2], ind + 1)
        elif k == "while": out.append(f"{pad}while b:"); out += render(s[1], ind + 1)
        elif k == "whiletrue": out.append(f"{pad}while True:"); out += render(s[1], ind + 1)
        elif k == "break": out.append(f"{pad}break")
        elif k == "continue": out.append(f"{pad}continue")
        elif k == "ret": out.append(f"{pad}return")
        elif k == "retv": out.append(f"{pad}return {txt(s[1])}")
    return out or [pad + "pass"]

SIGS = {"none": ("b: bool", "None", []), "borrowed": ("p: qubit, b: bool", "None", ["p"]), "owned": ("o: qubit @owned, b: bool", "None", ["o"]),
        "both": ("p: qubit, o: qubit @owned, b: bool", "None", ["p", "o"]), "retq": ("o: qubit @owned, b: bool", "qubit", ["o"])}

def source(k, sig, prog):
    params, ret, _ = SIGS[sig]
    return f"@guppy\ndef f{k}({params}) -> {ret}:\n" + "\n".join(render(prog)) + "\n"

# ---- reference semantics
class Reject(Exception): pass

ALL_LEAVES = ["q", "r", "p", "o", "t.0", "t.1", "s.a", "s.b"]
TUPLE_ASSIGNABLE = {"t.0", "t.1"}          # tuple elements cannot be assigned individually

class Ref:
    def __init__(self, sig):
        self.sig = sig
        self.params = SIGS[sig][2]
        self.retq = SIGS[sig][1] == "qubit"
        self.dead = False
        self.oob = False
    def init(self):
        st = {x: N for x in ALL_LEAVES}
        for p in self.params: st[p] = L
        # struct variable `s` counts as defined once `s = P(..)` ran (field assignment needs it)
        st["s#def"] = N
        return frozenset(st.items())
    def need(self, st, x, want):
        if st[x] == "I":
            if want == N: return             # a classical value may be overwritten / dropped
            self.oob = True                  # a classical value used where a qubit is expected: typing, not linearity — outside this oracle
            raise Reject()
        if st[x] != want: raise Reject()
    def at_exit(self, st):
        for x in ALL_LEAVES:
            if x == "p":
                if "p" in self.params and st[x] != L: raise Reject()
            elif st[x] == L: raise Reject()
    def step(self, s, st):
        st = dict(st); k = s[0]
        reads = {"borrow": s[1:2], "borrow2": s[1:3], "consume": s[1:2], "move": s[2:3], "pack": s[1:3], "mk": s[1:3]}.get(k, ())
        if any(st[x] == "I" for x in reads):
            self.oob = True                  # a classical value is read: typing, not linearity — outside this oracle
            raise Reject()
        if k == "new":
            self.assign(st, s[1])
        elif k == "seti":
            # the name is rebound to a classical value: allowed iff it holds no live qubit; afterwards it holds none
            if s[1] == "p" or s[1] in TUPLE_ASSIGNABLE: raise Reject()
            if s[1] in ("s.a", "s.b"): raise Reject()            # a field keeps its declared type
            self.need(st, s[1], N); st[s[1]] = "I"
        elif k == "borrow": self.need(st, s[1], L)
        elif k == "borrow2":
            if s[1] == s[2]: raise Reject()
            self.need(st, s[1], L); self.need(st, s[2], L)
        elif k == "consume": self.consume(st, s[1])
        elif k == "move":
            self.consume(st, s[2]); self.assign(st, s[1])        # also for x = x: moved out, then put back
        elif k == "pack":
            if s[1] == s[2]: raise Reject()
            self.consume(st, s[1]); self.consume(st, s[2]); self.assign(st, "t.0", whole=True); self.assign(st, "t.1", whole=True)
        elif k == "unpack":
            self.consume(st, "t.0"); self.consume(st, "t.1")
            if s[1] == s[2]: raise Reject()    # a, a = t leaks the first qubit
            self.assign(st, s[1]); self.assign(st, s[2])
        elif k == "mk":
            if s[1] == s[2]: raise Reject()
            self.consume(st, s[1]); self.consume(st, s[2]); self.assign(st, "s.a", whole=True); self.assign(st, "s.b", whole=True); st["s#def"] = L
        return frozenset(st.items())
    def consume(self, st, x):
        if x == "p": raise Reject()              # a borrowed parameter cannot be moved or consumed
        self.need(st, x, L); st[x] = N
    def assign(self, st, x, whole=False):
        if x == "p": raise Reject()              # a borrowed parameter cannot be reassigned
        if x in TUPLE_ASSIGNABLE and not whole: raise Reject()
        if x in ("s.a", "s.b") and not whole and st["s#def"] != L: raise Reject()
        self.need(st, x, N); st[x] = L
    def run(self, stmts, states):
        """returns (normal exit states, break states, continue states); raises Reject"""
        brk, cont = set(), set()
        for idx, s in enumerate(stmts):
            if not states:
                self.dead = True         # statically dead code: outside the oracle's domain
                break
            k = s[0]
            if k == "if":
                a, b1, c1 = self.run(s[1], states)
                if s[2] is not None: b_, b2, c2 = self.run(s[2], states)
                else: b_, b2, c2 = set(states), set(), set()
                states = a | b_; brk |= b1 | b2; cont |= c1 | c2
            elif k == "while":
                head, seen_exit = set(states), set()
                while True:
                    body_out, b1, c1 = self.run(s[1], head)
                    new = head | body_out | c1
                    seen_exit |= b1
                    if new == head: break
                    head = new
                states = head | seen_exit
            elif k == "whiletrue":
                # left through `break` only (constant conditions are folded)
                head, seen_exit = set(states), set()
                while True:
                    body_out, b1, c1 = self.run(s[1], head)
                    new = head | body_out | c1
                    seen_exit |= b1
                    if new == head: break
                    head = new
                states = seen_exit
            elif k == "break": brk |= states; states = set()
            elif k == "continue": cont |= states; states = set()
            elif k == "ret":
                if self.retq: raise Reject()
                for st in states: self.at_exit(dict(st))
                states = set()
            elif k == "retv":
                if not self.retq: raise Reject()
                for st in states:
                    d = dict(st); self.consume(d, s[1]); self.at_exit(d)
                states = set()
            else:
                states = {self.step(s, dict(st)) for st in states}
        return states, brk, cont
    def verdict(self, prog):
        try:
            out, brk, cont = self.run(prog, {self.init()})
            if brk or cont: return "invalid"
            if out and self.retq: return "reject"       # falls off the end of a value-returning function
            for st in out: self.at_exit(dict(st))
            return "accept"
        except Reject:
            return "reject"

# ---- generator: programs that satisfy the path condition by construction (one definite state
# per program point), then random single edits of them (deleted / inserted / altered statements);
# the reference decides the verdict of every program, edited or not
PLAIN_ALL = ["q", "r", "o"]

def valid_simple(st, params):
    plain = ["q", "r"] + [x for x in params if x != "p"]
    fields = ["s.a", "s.b"] if st["s#def"] == L else []
    live = [x for x in ALL_LEAVES if st[x] == L]
    out = []
    for x in plain + fields:
        if st[x] == N: out.append(("new", x))
    for x in plain:
        if st[x] == N and x != "o": out.append(("seti", x))
    for x in live:
        out.append(("borrow", x))
        if x != "p": out.append(("consume", x))
    for x in live:
        for y in live:
            if x != y: out.append(("borrow2", x, y))
    for y in live:
        if y == "p": continue
        for x in plain + fields:
            if st[x] == N or x == y: out.append(("move", x, y))
    lp = [x for x in plain if st[x] == L]
    if st["t.0"] == N and st["t.1"] == N:
        for a_ in lp:
            for b_ in lp:
                if a_ != b_: out.append(("pack", a_, b_))
    if st["t.0"] == L and st["t.1"] == L:
        fp = [x for x in plain if st[x] == N]
        for a_ in fp:
            for b_ in fp:
                if a_ != b_: out.append(("unpack", a_, b_))
    if st["s.a"] == N and st["s.b"] == N:
        for a_ in lp:
            for b_ in lp:
                if a_ != b_: out.append(("mk", a_, b_))
    return out

def apply_simple(ref, s, st):
    return dict(ref.step(s, dict(st)))

def equalize(st, target):
    """statements taking definite state st to target, or None"""
    out = []
    for x in ALL_LEAVES:
        if st[x] == target[x] or {st[x], target[x]} == {"I", N}: continue
        if st[x] == L and target[x] in (N, "I"):
            if x == "p": return None
            out.append(("consume", x))
        else:
            if x in ("t.0", "t.1", "p"): return None
            if x in ("s.a", "s.b") and st["s#def"] != L: return None
            out.append(("new", x))
    return out

def gen_valid(rng, sig):
    ref = Ref(sig)
    params = SIGS[sig][2]
    def block(st, depth, in_loop, head):
        """returns (stmts, state) with a definite state, or (stmts, None) if the block always jumps"""
        out = []
        for _ in range(rng.choice((1, 2, 2, 3, 4))):
            r = rng.random()
            if depth > 0 and r < 0.22:
                th, s1 = block(dict(st), depth - 1, in_loop, head)
                if rng.random() < 0.65: el, s2 = block(dict(st), depth - 1, in_loop, head)
                else: el, s2 = None, dict(st)
                if s1 is None and s2 is None:
                    out.append(("if", th, el)); return out, None
                if s1 is None: st = s2
                elif s2 is None: st = s1
                else:
                    tgt = {x: (s1[x] if s1[x] == s2[x] else N) for x in s1}          # (int on one side only: the name is dead afterwards)
                    e1, e2 = equalize(s1, tgt), equalize(s2, tgt)
                    if e1 is None or e2 is None: continue
                    th = th + e1
                    if el is None:
                        if e2: el = e2
                    else: el = el + e2
                    st = tgt
                out.append(("if", th, el))
            elif depth > 0 and r < 0.34:
                body, s1 = block(dict(st), depth - 1, True, dict(st))
                if s1 is not None:
                    e1 = equalize(s1, st)
                    if e1 is None: continue
                    body = body + e1
                    if rng.random() < 0.35:
                        out.append(("whiletrue", body + [("if", [("break",)], None)])); continue
                out.append(("while", body))
            elif in_loop and r < 0.40:
                e1 = equalize(st, head)
                if e1 is None: continue
                out += e1 + [(rng.choice(["break", "continue"]),)]
                return out, None
            elif r < 0.44 and SIGS[sig][1] != "qubit":
                tgt = {x: (L if x == "p" and "p" in params else N) for x in st}
                tgt["s#def"] = st["s#def"]
                e1 = equalize(st, tgt)
                if e1 is None: continue
                out += e1 + [("ret",)]
                return out, None
            else:
                cands = valid_simple(st, params)
                if not cands: continue
                stc = rng.choice(cands)
                st = apply_simple(ref, stc, st); out.append(stc)
        return out, st
    st0 = dict(ref.init())
    body, st = block(st0, 2, False, None)
    if st is not None:
        tgt = {x: (L if x == "p" and "p" in params else N) for x in st}
        tgt["s#def"] = st["s#def"]
        if SIGS[sig][1] == "qubit":
            keep = [x for x in ["q", "r", "o"] if st[x] == L]
            if not keep:
                body.append(("new", "q")); st["q"] = L; keep = ["q"]
            k = rng.choice(keep); st2 = dict(st); st2[k] = N
            e1 = equalize(st2, tgt)
            if e1 is None: return None
            body += e1 + [("retv", k)]
        else:
            e1 = equalize(st, tgt)
            if e1 is None: return None
            body += e1
    elif SIGS[sig][1] == "qubit":
        return None
    return body

def simple_positions(prog, path=()):
    out = []
    for i, s_ in enumerate(prog):
        if s_[0] == "if":
            out += simple_positions(s_[1], path + (i, 1))
            if s_[2] is not None: out += simple_positions(s_[2], path + (i, 2))
        elif s_[0] in ("while", "whiletrue"): out += simple_positions(s_[1], path + (i, 1))
        else: out.append(path + (i,))
    return out

def edit(rng, sig, prog):
    """one random edit: delete / duplicate / replace a simple statement, or insert a random one"""
    import copy
    prog = copy.deepcopy(prog)
    pos = simple_positions(prog)
    if not pos: return prog
    p = rng.choice(pos)
    blk = prog
    for i in range(0, len(p) - 1, 2):
        node = list(blk[p[i]]); blk[p[i]] = node; blk = node[p[i + 1]]
    i = p[-1]
    params = SIGS[sig][2]
    anyleaf = ["q", "r", "s.a", "s.b", "t.0", "t.1"] + params
    rnd = lambda: rng.choice([("new", rng.choice(["q", "r", "s.a", "s.b", "o"])), ("seti", rng.choice(["q", "r"])), ("borrow", rng.choice(anyleaf)), ("consume", rng.choice(anyleaf)),
                              ("move", rng.choice(["q", "r", "s.a", "s.b"]), rng.choice(anyleaf)), ("borrow2", rng.choice(anyleaf), rng.choice(anyleaf)),
                              ("pack", rng.choice(["q", "r"]), rng.choice(["q", "r", "o"])), ("unpack", rng.choice(["q", "r"]), rng.choice(["q", "r"])), ("mk", rng.choice(["q", "r"]), rng.choice(["q", "r", "o"]))])
    k = rng.random()
    jump = blk[i][0] in ("break", "continue", "ret", "retv")
    if k < 0.3 and not jump: del blk[i]
    elif k < 0.5 and not jump: blk.insert(i, blk[i])
    elif k < 0.75 and not jump: blk[i] = rnd()
    else: blk.insert(i, rnd())
    def fix(b):
        return [tuple([x[0], fix(x[1]), None if x[2] is None else fix(x[2])]) if x[0] == "if" else (x[0], fix(x[1])) if x[0] in ("while", "whiletrue") else tuple(x) for x in b]
    return fix(prog)

def fixed_family():
    """systematic single-fault programs and their repaired counterparts: for every kind of place
    (plain local, whole struct, whole tuple, struct field) x (overwrite while live, overwrite after
    proper consumption, use twice, leak at the end, partial consumption) x (same block, next block,
    inside if, inside while)"""
    kinds = {
        "q": ([("new", "q")], [("new", "q")], [("consume", "q")]),
        "s": ([("new", "q"), ("new", "r"), ("mk", "q", "r")], [("new", "q"), ("new", "r"), ("mk", "q", "r")], [("consume", "s.a"), ("consume", "s.b")]),
        "t": ([("new", "q"), ("new", "r"), ("pack", "q", "r")], [("new", "q"), ("new", "r"), ("pack", "q", "r")], [("unpack", "q", "r"), ("consume", "q"), ("consume", "r")]),
        "s.a": ([("new", "q"), ("new", "r"), ("mk", "q", "r")], [("new", "s.a")], [("consume", "s.a"), ("consume", "s.b")]),
        "move": ([("new", "q"), ("new", "r")], [("move", "q", "r")], [("consume", "q")]),
    }
    sep = [("if", [("borrow", "__X__")], None)]
    out = []
    for kind, (setup, again, cleanup) in kinds.items():
        first_leaf = cleanup[0][1] if cleanup[0][0] == "consume" else "t.0"
        half = cleanup[:1]
        for ctx in ("same", "next", "if", "while"):
            def place(stmts, ctx=ctx):
                if ctx == "same": return stmts
                if ctx == "next": return [("if", [("borrow", first_leaf)], None)] + stmts
                if ctx == "if": return [("if", stmts, None)]
                return [("while", stmts)]
            # overwrite while live / after consumption / after partial consumption
            out.append(setup + place(again) + cleanup)
            out.append(setup + place(cleanup + again) + cleanup)
            out.append(setup + place(half + again) + cleanup)
            # consumed twice / leak at the end / consumed inside, live after
            out.append(setup + place(cleanup) + cleanup)
            out.append(setup + place([("borrow", first_leaf)]))
            out.append(setup + place(cleanup))
            out.append(setup + place(cleanup + setup) + cleanup)
    progs = []
    for pr in out:
        for sig in ("none", "borrowed"):
            progs.append((sig, pr))
    # borrowed / owned parameters
    for pr in ([("consume", "p")], [("borrow", "p")], [("move", "q", "p"), ("consume", "q")], [("new", "q"), ("borrow2", "p", "q"), ("consume", "q")], [("borrow2", "p", "p")],
               [("if", [("borrow", "p")], [("consume", "p")])], [("while", [("borrow", "p")])]):
        progs.append(("borrowed", pr))
    for pr in ([("consume", "o")], [], [("borrow", "o")], [("move", "q", "o"), ("consume", "q")], [("if", [("consume", "o")], None)], [("if", [("consume", "o")], [("consume", "o")])],
               [("while", [("consume", "o")])], [("while", [("consume", "o"), ("new", "o")]), ("consume", "o")], [("while", [("consume", "o"), ("break",)]), ("consume", "o")],
               [("while", [("consume", "o"), ("ret",)]), ("consume", "o")], [("consume", "o"), ("consume", "o")], [("new", "q"), ("mk", "o", "q"), ("consume", "s.a")],
               [("new", "q"), ("mk", "o", "q"), ("consume", "s.a"), ("consume", "s.b")], [("new", "q"), ("pack", "o", "q"), ("consume", "t.0"), ("consume", "t.1")]):
        progs.append(("owned", pr))
    # a name rebound to a classical value (type-changing assignment) in one branch / after consumption
    for pr in ([("new", "q"), ("consume", "q"), ("if", [("consume", "q"), ("seti", "q")], [("seti", "q")])], [("new", "q"), ("if", [("consume", "q"), ("seti", "q")], [("consume", "q")])],
               [("new", "q"), ("if", [("seti", "q")], [("consume", "q")])], [("new", "q"), ("consume", "q"), ("seti", "q"), ("new", "q"), ("consume", "q")],
               [("new", "q"), ("if", [("consume", "q"), ("seti", "q")], [("consume", "q"), ("seti", "q")]), ("new", "q"), ("consume", "q")],
               [("new", "q"), ("while", [("consume", "q"), ("seti", "q"), ("new", "q")]), ("consume", "q")], [("seti", "q"), ("new", "q"), ("seti", "q")],
               [("new", "q"), ("new", "r"), ("if", [("consume", "q"), ("seti", "q"), ("consume", "r")], [("consume", "r"), ("consume", "q")])]):
        for sig in ("none", "borrowed"):
            progs.append((sig, pr))
    # `while True` loops, left through break / return only: a place consumed in the loop body is consumed on EVERY iteration
    brk = [("if", [("break",)], None)]
    for pr in ([("new", "q"), ("whiletrue", [("consume", "q")] + brk)], [("new", "q"), ("whiletrue", [("consume", "q"), ("break",)])], [("whiletrue", [("new", "q"), ("consume", "q")] + brk)],
               [("new", "q"), ("whiletrue", [("consume", "q"), ("new", "q")] + brk), ("consume", "q")], [("new", "q"), ("whiletrue", [("borrow", "q")] + brk), ("consume", "q")],
               [("new", "q"), ("whiletrue", [("consume", "q"), ("ret",)])], [("new", "q"), ("whiletrue", [("if", [("consume", "q"), ("ret",)], None)])],
               [("new", "q"), ("new", "r"), ("mk", "q", "r"), ("whiletrue", [("consume", "s.a")] + brk), ("consume", "s.b")],
               [("new", "q"), ("new", "r"), ("mk", "q", "r"), ("whiletrue", [("consume", "s.a"), ("new", "s.a")] + brk), ("consume", "s.a"), ("consume", "s.b")],
               [("new", "q"), ("new", "r"), ("pack", "q", "r"), ("whiletrue", [("unpack", "q", "r"), ("consume", "q"), ("consume", "r")] + brk)],
               [("new", "q"), ("whiletrue", [("move", "r", "q"), ("consume", "r")] + brk)], [("new", "q"), ("whiletrue", [("move", "r", "q"), ("move", "q", "r")] + brk), ("consume", "q")],
               [("new", "q"), ("whiletrue", [("whiletrue", [("consume", "q"), ("break",)])] + brk)], [("new", "q"), ("while", [("whiletrue", [("consume", "q"), ("break",)])])]):
        for sig in ("none", "borrowed"):
            progs.append((sig, pr))
    for pr in ([("whiletrue", [("consume", "o")] + brk)], [("whiletrue", [("consume", "o"), ("break",)])], [("whiletrue", [("borrow", "o")] + brk), ("consume", "o")]):
        progs.append(("owned", pr))
    for pr in ([("whiletrue", [("borrow", "p")] + brk)], [("whiletrue", [("consume", "p")] + brk)]):
        progs.append(("borrowed", pr))
    for pr in ([("retv", "o")], [("new", "q"), ("retv", "o")], [("new", "q"), ("retv", "q")], [("new", "q"), ("consume", "o"), ("retv", "q")], [("if", [("retv", "o")], None)],
               [("if", [("retv", "o")], [("retv", "o")])], [("if", [("retv", "o")], None), ("new", "q"), ("retv", "q")], [("if", [("retv", "o")], None), ("retv", "o")]):
        progs.append(("retq", pr))
    return progs


def programs(tier, chunk, nchunks):
    fixed = []
    for sig, pr in fixed_family()[chunk::nchunks]:
        ref = Ref(sig); v = ref.verdict(pr)
        if v != "invalid" and not ref.dead and not ref.oob: fixed.append((sig, pr, v))
    return fixed + random_programs(tier, chunk, nchunks)


def random_programs(tier, chunk, nchunks):
    rng = random.Random(606 + chunk)
    n = (160 if tier != "thorough" else 1600)
    out, seen = [], set()
    sigs = list(SIGS)
    tries = 0
    while len(out) < n and tries < n * 40:
        tries += 1
        sig = sigs[tries % len(sigs)]
        prog = gen_valid(rng, sig)
        if prog is None: continue
        cands = [prog] + [edit(rng, sig, prog) for _ in range(2)]
        for pr in cands:
            key = (sig, repr(pr))
            if key in seen: continue
            seen.add(key)
            ref = Ref(sig); v = ref.verdict(pr)
            if v == "invalid" or ref.dead or ref.oob: continue
            out.append((sig, pr, v))
    return out[:n]

def check_all(progs):
    src = HEADER + "".join(source(k, sig, prog) for k, (sig, prog, _) in enumerate(progs))
    d = tempfile.mkdtemp(dir=os.environ.get("TMPDIR", "/var/tmp")); fn = os.path.join(d, "c06_progs.py")
    open(fn, "w").write(src)
    spec = importlib.util.spec_from_file_location("c06_progs", fn); m = importlib.util.module_from_spec(spec); sys.modules["c06_progs"] = m
    out = []
    try:
        spec.loader.exec_module(m)
        for k in range(len(progs)):
            try:
                getattr(m, f"f{k}").check(); out.append(("accept", None))
            except GuppyError as e:
                out.append(("reject", type(e.error).__name__))
            except Exception as ex:
                out.append(("crash", repr(ex)[:200]))
    finally:
        shutil.rmtree(d, ignore_errors=True); sys.modules.pop("c06_progs", None)
    return out
'''

DRIVER = r'''
I_ = INPUT
progs = programs(I_["tier"], I_["chunk"], I_["nchunks"])
bad = None; n = 0; n_acc = 0; disagreements = []
B = 100
for off in range(0, len(progs), B):
    batch = progs[off:off + B]
    res = check_all(batch)
    for k, ((sig, prog, want), (got, info)) in enumerate(zip(batch, res)):
        n += 1
        if want == "accept": n_acc += 1
        if got == "crash":
            w = {"sig": sig, "prog": prog, "source": source(0, sig, prog), "detail": f"the checker crashed: {info}"}
        elif got != want:
            w = {"sig": sig, "prog": prog, "source": source(0, sig, prog), "detail": f"reference (path condition): {want}; check(): {got}{' (' + info + ')' if info else ''}"}
        else:
            continue
        disagreements.append(w)
        if bad is None: bad = w
print(json.dumps({"violates": bad is not None, "evaluations": n, "reference_accepts": n_acc, "witness": bad, "detail": bad and (bad["detail"] + " on\n" + bad["source"]),
                  "n_disagreements": len(disagreements), "more": [d["source"] + " => " + d["detail"] for d in disagreements[1:6]]}))
'''

REPLAY_ONE = r'''
I_ = INPUT
prog = json.loads(json.dumps(I_["prog"]), object_hook=None)
def tup(x): return tuple(tup(y) for y in x) if isinstance(x, list) else x
prog = [tup(s) for s in prog]
prog = [tuple(list(s[:1]) + [list(map(tup, p)) if isinstance(p, tuple) and p and isinstance(p[0], tuple) else p for p in s[1:]]) for s in prog]
def fix(s):
    if s[0] == "if": return ("if", [fix(x) for x in s[1]], None if s[2] is None else [fix(x) for x in s[2]])
    if s[0] in ("while", "whiletrue"): return (s[0], [fix(x) for x in s[1]])
    return tuple(s)
prog = [fix(s) for s in prog]
want = Ref(I_["sig"]).verdict(prog)
got, info = check_all([(I_["sig"], prog, want)])[0]
print(json.dumps({"violates": got != want, "reference": want, "check": got, "info": info, "source": source(0, I_["sig"], prog)}))
'''
