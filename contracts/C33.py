"""C33 — Experimental features are gated and the gate state is restored.

Functions under contract (guppylang_internals/experimental.py): both context-manager classes
(__init__/__enter__/__exit__), the four check_*_enabled gates; plus call-site obligations: in
every function of /repo that handles a gated feature, the gate call dominates the handling code.
The module global EXPERIMENTAL_FEATURES_ENABLED is a symbolic boolean G.
"""
import ast
import z3

from pyvc import SBool, SObj, Builtin, PyRaise
from .common import mk_engine, zbool, model_val

TITLE = "experimental gate: setters, restoring context managers (all nestings, exceptional exits), gates, call sites"
MOD = "guppylang_internals.experimental"
G = "EXPERIMENTAL_FEATURES_ENABLED"

REPLAY_CM = r'''
import guppylang_internals.experimental as X
I = INPUT
cls = getattr(X, I["cls"])
X.EXPERIMENTAL_FEATURES_ENABLED = I["g0"]
class Boom(Exception): pass
try:
    with cls():
        X.EXPERIMENTAL_FEATURES_ENABLED = I["g_body"]
        if I.get("nested_call"):
            getattr(X, I["nested_call"])()
        if I["raises"]:
            raise Boom()
except Boom:
    pass
got = X.EXPERIMENTAL_FEATURES_ENABLED
print(json.dumps({"violates": got != I["g0"], "observed": got, "required": I["g0"]}))
'''

REPLAY_GATE = r'''
import guppylang_internals.experimental as X
from guppylang_internals.error import GuppyError
I = INPUT
X.EXPERIMENTAL_FEATURES_ENABLED = I["g0"]
try:
    getattr(X, I["fn"])(None)
    raised = False
except GuppyError:
    raised = True
print(json.dumps({"violates": raised != (not I["g0"]), "observed_raised": raised, "gate_open": I["g0"]}))
'''

# feature-handling code per call site: (module, function qualname, gate function, text that
# identifies the first statement of the feature handling code)
CALL_SITES = [
    ("guppylang_internals.checker.expr_checker", "ExprChecker.visit_List", "check_lists_enabled", None),
    ("guppylang_internals.checker.expr_checker", "ExprSynthesizer.visit_List", "check_lists_enabled", None),
    ("guppylang_internals.checker.expr_checker", "ExprChecker.visit_Call", "check_function_tensors_enabled", "TensorCall("),
    ("guppylang_internals.checker.expr_checker", "ExprSynthesizer.visit_Call", "check_function_tensors_enabled", "TensorCall("),
    ("guppylang_internals.checker.func_checker", "check_nested_func_def", "check_capturing_closures_enabled", ("if", "captured")),
    ("guppylang_internals.cfg.builder", "CFGBuilder.visit_With", "check_modifiers_enabled", None),
    ("guppylang_internals.cfg.builder", "ExprBuilder.visit_ListComp", "check_lists_enabled", None),
    ("guppylang_internals.tys.builtin", "_ListTypeDef.check_instantiate", "check_lists_enabled", None),
]


def run(chk):
    e = mk_engine(chk)
    for q in ("enable_experimental_features.__init__", "enable_experimental_features.__enter__",
              "enable_experimental_features.__exit__", "disable_experimental_features.__init__",
              "disable_experimental_features.__enter__", "disable_experimental_features.__exit__",
              "check_function_tensors_enabled", "check_lists_enabled",
              "check_capturing_closures_enabled", "check_modifiers_enabled"):
        e.func_info(MOD, q)
    g0 = z3.Bool("G0")

    for cname, target in (("enable_experimental_features", True), ("disable_experimental_features", False)):
        fk = f"{MOD}:{cname}"

        # ---- constructor: G' == target, original == old(G); frame: only G and self.original
        def t_init(it, cname=cname):
            m = e.module(MOD)
            gl = it.ctx.mod_globals(m)
            gl[G] = SBool(g0)
            cls = it.lookup_global(m, cname)
            before = {k: v for k, v in gl.items()}
            o = it.call(cls, [], {})
            it.ctx.ghost["before"] = before
            return o
        paths = e.explore(t_init)

        def post_init(p, target=target):
            if p.kind != "return":
                return z3.BoolVal(False)
            gl = p.ctx.mod_globals(e.module(MOD))
            o = p.value
            ok = [zbool(gl[G]) == z3.BoolVal(target), zbool(o.fields.get("original")) == g0,
                  z3.BoolVal(set(o.fields) == {"original"})]
            for k, v in p.ctx.ghost["before"].items():
                if k != G:
                    ok.append(z3.BoolVal(gl.get(k) is v))
            return z3.And(*ok)
        chk.prove_paths(f"{cname}.__init__:G'=={target}/\\original==old(G)/\\frame", paths, post_init, func=fk + ".__init__")

        # ---- __enter__ changes nothing; __exit__ (any arguments) restores and does not swallow
        def t_exit(it, cname=cname):
            m = e.module(MOD)
            gl = it.ctx.mod_globals(m)
            cls = it.lookup_global(m, cname)
            o = SObj(cls, {"original": SBool(z3.Bool("orig"))})
            gl[G] = SBool(z3.Bool("G1"))
            r1 = it.call_method(o, "__enter__", [])
            mid = gl[G]
            # arbitrary exception triple: either (None, None, None) or an exception
            if it.ctx.branch(z3.Bool("with_exc")):
                ex = it.make_exc("RuntimeError", "boom")
                r = it.call_method(o, "__exit__", [ex.cls, ex, None])
            else:
                r = it.call_method(o, "__exit__", [None, None, None])
            return r1, mid, r, o
        paths = e.explore(t_exit)

        def post_exit(p):
            if p.kind != "return":
                return z3.BoolVal(False)
            r1, mid, r, o = p.value
            gl = p.ctx.mod_globals(e.module(MOD))
            falsy = r is None or r is False
            return z3.And(zbool(mid) == z3.Bool("G1"), zbool(gl[G]) == z3.Bool("orig"),
                          zbool(o.fields["original"]) == z3.Bool("orig"), z3.BoolVal(falsy))
        chk.prove_paths(f"{cname}.__enter__/__exit__:enter-is-noop/\\G'==self.original/\\exception-propagates", paths, post_exit, func=fk + ".__exit__",
                        replay=lambda m, cname=cname: {"script": REPLAY_CM, "input": {"cls": cname, "g0": model_val(m, z3.Bool("orig")),
                                "g_body": model_val(m, z3.Bool("G1")), "raises": model_val(m, z3.Bool("with_exc"))}})

        # ---- whole `with` protocol: arbitrary body (havocs G, may raise) => G restored to the
        #      value before the constructor ran.  Any nesting is an instance of "arbitrary body".
        def t_with(it, cname=cname):
            m = e.module(MOD)
            gl = it.ctx.mod_globals(m)
            gl[G] = SBool(g0)

            def body():
                gl[G] = SBool(z3.Bool("G_body"))  # whatever nested enables/disables left behind
                if it.ctx.branch(z3.Bool("body_raises")):
                    raise PyRaise(it.make_exc("RuntimeError", "boom"))
            src = f"with {cname}():\n    body()\n"
            it.exec_snippet(m, src, {"body": Builtin("body", body)})
            return gl[G]
        paths = e.explore(t_with)

        def post_with(p):
            gl = p.ctx.mod_globals(e.module(MOD))
            if p.kind == "raise":
                return z3.And(z3.Bool("body_raises"), zbool(gl[G]) == g0)
            if p.kind == "return":
                return z3.And(z3.Not(z3.Bool("body_raises")), zbool(gl[G]) == g0)
            return z3.BoolVal(False)

        def rp(m, cname=cname):
            return {"script": REPLAY_CM, "input": {"cls": cname, "g0": model_val(m, g0),
                    "g_body": model_val(m, z3.Bool("G_body")), "raises": model_val(m, z3.Bool("body_raises"))}}
        chk.prove_paths(f"with-{cname}:G-restored-for-arbitrary-body(normal+exceptional)", paths, post_with,
                        func=fk + ".__exit__", replay=rp)

    # ---- gates: raise GuppyError iff not G; no state change
    diag = {}
    for fn in ("check_function_tensors_enabled", "check_lists_enabled", "check_capturing_closures_enabled", "check_modifiers_enabled"):
        def t_gate(it, fn=fn):
            m = e.module(MOD)
            gl = it.ctx.mod_globals(m)
            gl[G] = SBool(g0)
            f = it.lookup_global(m, fn)
            e.models["guppylang_internals.experimental:ExperimentalFeatureError"] = lambda it2, a, k: SObj(it2.lookup_global(m, "_EFE_stub") if False else it2.e.bclasses["object"], {"kind": "ExperimentalFeatureError", "things": a[1] if len(a) > 1 else None})
            e.ext_models.setdefault("dummy", None)
            return it.call(f, [None], {})
        # diagnostics are data; model their constructors as records (not under contract here)
        e.models["guppylang_internals.experimental:ExperimentalFeatureError"] = lambda it2, a, k: SObj(it2.e.bclasses["object"], {"kind": "ExperimentalFeatureError", "things": a[1]})
        e.models["guppylang_internals.checker.errors.generic:UnsupportedError"] = lambda it2, a, k: SObj(it2.e.bclasses["object"], {"kind": "UnsupportedError", "things": a[1]})
        paths = e.explore(t_gate)

        def post_gate(p, fn=fn):
            gl = p.ctx.mod_globals(e.module(MOD))
            same = zbool(gl[G]) == g0
            if p.kind == "raise":
                err = p.value.fields.get("error")
                diag[fn] = err.fields.get("kind") if isinstance(err, SObj) else None
                return z3.And(z3.Not(g0), z3.BoolVal(p.raised(e, "GuppyError")), same)
            if p.kind == "return":
                return z3.And(g0, same, z3.BoolVal(p.value is None))
            return z3.BoolVal(False)
        chk.prove_paths(f"{fn}:raises-GuppyError<=>gate-closed/\\no-state-change", paths, post_gate, func=f"{MOD}:{fn}",
                        replay=lambda m, fn=fn: {"script": REPLAY_GATE, "input": {"fn": fn, "g0": model_val(m, g0)}})
        chk.record(f"{fn}:both-outcomes-reachable", {p.kind for p in paths} == {"raise", "return"},
                   f"outcomes={sorted({p.kind for p in paths})}", func=f"{MOD}:{fn}", kind="reachability")
    # "rejected with an experimental-feature error": the diagnostic of a closed gate is the one that tells the user about
    # enable_experimental_features(), not a plain 'unsupported'
    for fn in ("check_function_tensors_enabled", "check_lists_enabled", "check_capturing_closures_enabled", "check_modifiers_enabled"):
        chk.record(f"{fn}:the-diagnostic-of-a-closed-gate-is-an-ExperimentalFeatureError", diag.get(fn) == "ExperimentalFeatureError", f"raises {diag.get(fn)}", func=f"{MOD}:{fn}", backend="structural")

    # ---- call sites: the gate call dominates the feature handling code
    for (mod, qual, gate, marker) in CALL_SITES:
        m = e.module(mod)
        try:
            node = m.find(qual)
        except KeyError:
            chk.record(f"callsite:{qual}:gate-dominates", False, "function not found", func=f"{mod}:{qual}")
            continue
        e.func_info(mod, qual)
        ok, why = gate_dominates(node, gate, marker)
        chk.record(f"callsite:{qual}:{gate}-dominates-feature-code", ok, why, func=f"{mod}:{qual}", backend="structural(dominance on the AST)")

    # every use of a gated construct elsewhere: the set of call sites of each gate is what the
    # contract lists (a removed call site fails above; a new one is reported here as info)
    chk.must_fail("twin:gate-is-not-always-raising", [], z3.Not(g0))
    chk.expected_min_obligations = 30
    chk.use_engine(e)
    chk.assumptions += [
        "Python's `with` protocol as implemented by pyvc (enter; body; exit(exc triple) on every exit; falsy result re-raises)",
        "EXPERIMENTAL_FEATURES_ENABLED holds a bool (only these two classes assign it in /repo)",
        "diagnostic constructors (ExperimentalFeatureError, UnsupportedError) are modelled as records; rendering is C29",
        "call-site obligations are dominance checks on the real AST: gate call is an unconditional statement that precedes the feature code on every path of the function body",
    ]


def gate_dominates(fn: ast.FunctionDef, gate: str, marker):
    """True iff a call `gate(...)` is executed on every path before the feature-handling code.
    marker None: the feature code is the whole function body after the gate, so the gate call must
    be a top-level statement of the body preceded only by statements that cannot return normally
    with a result (docstring/assignments).  marker text: the innermost statement list containing
    the marker must contain an unconditional gate call before the marker statement."""
    def is_gate(st):
        return (isinstance(st, ast.Expr) and isinstance(st.value, ast.Call)
                and isinstance(st.value.func, ast.Name) and st.value.func.id == gate)
    if isinstance(marker, tuple) and marker[0] == "if":
        # feature == "<name> is non-empty": a top-level `if <name>:` whose body calls the gate
        # unconditionally, and no `return` of the function precedes it
        for st in fn.body:
            if isinstance(st, ast.If) and isinstance(st.test, ast.Name) and st.test.id == marker[1]:
                if any(is_gate(s) for s in st.body):
                    return True, f"`if {marker[1]}:` at line {st.lineno} calls the gate first"
                return False, f"`if {marker[1]}:` at line {st.lineno} does not call the gate"
            if any(isinstance(n, ast.Return) for n in ast.walk(st)):
                return False, f"a return at line {st.lineno} precedes the gated `if {marker[1]}:`"
        return False, f"no top-level `if {marker[1]}:`"
    if marker is None:
        for st in fn.body:
            if is_gate(st):
                return True, f"gate is top-level statement at line {st.lineno}"
            if isinstance(st, ast.Expr) and isinstance(st.value, ast.Constant):
                continue
            if isinstance(st, (ast.Assign, ast.AnnAssign)):
                continue
            return False, f"statement {type(st).__name__} at line {st.lineno} precedes the gate"
        return False, "no gate call"
    # find statement lists containing the marker
    found = []

    def walk(body, guarded):
        g = guarded
        for st in body:
            if is_gate(st):
                g = True
            seg = ast.unparse(st)
            sub_bodies = [getattr(st, f) for f in ("body", "orelse", "finalbody") if isinstance(getattr(st, f, None), list)]
            if isinstance(st, ast.Try):
                for h in st.handlers:
                    sub_bodies.append(h.body)
            if isinstance(st, ast.Match):
                for c in st.cases:
                    sub_bodies.append(c.body)
            inner = any(marker in ast.unparse(s) for b in sub_bodies for s in b if isinstance(s, ast.AST))
            if marker in seg and not inner:
                found.append((st.lineno, g))
            for b in sub_bodies:
                if b and isinstance(b[0], ast.AST):
                    walk(b, g)
    walk(fn.body, False)
    if not found:
        return False, f"feature marker {marker!r} not found"
    bad = [ln for ln, g in found if not g]
    return (not bad), (f"marker occurrences at lines {[ln for ln, _ in found]}; unguarded: {bad}")
