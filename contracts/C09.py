"""C09 — Dataflow analyses equal the path-based solution in any visit order.

Functions under contract (guppylang_internals/cfg/analysis.py): BackwardAnalysis.run,
ForwardAnalysis.run, LivenessAnalysis.{__init__,eq,initial,include_unreachable,join,apply_bb},
AssignmentAnalysis.{__init__,initial,include_unreachable,join,apply_bb}.

Encoding: uninterpreted sorts BB, Var, Node; the CFG is a pair of edge relations succ/dsucc
(real and dummy edges) with `predecessors` the inverse of `successors`; the block collection
`bbs` is an arbitrary set D closed under edges; use/assign maps are arbitrary.  `queue.pop()`
returns an ARBITRARY member, so the proof covers every visiting order at once.

Per run-loop, inductive invariants (proved: hold on entry, preserved by one arbitrary iteration):
  I0 shape, I1 "every block not in the queue satisfies its equation", I2 extremality per
  variable (below every closed family for variables outside the start value, above every
  post-fixpoint for variables inside it).  At loop exit (queue empty) they give: the result is a
  fixpoint and it is the unique extremal one => independent of the visiting order.
"""
import z3

from pyvc import SObj, ClassVal, Builtin, SBool, LoopSpec, Unsupported
from pyvc.symcoll import (Elem, SColl, SSet, SDict, SGen, STup, Codec, elem_codec, set_codec,
                          dict_codec, tuple_codec, sampling)
from .common import mk_engine, model_val

TITLE = "worklist analyses reach the unique extremal solution of the dataflow equations for every CFG and every pop order"
MOD = "guppylang_internals.cfg.analysis"

BB = z3.DeclareSort("BB")
Var = z3.DeclareSort("Var")
Node = z3.DeclareSort("Node")
EBB, EVAR, ENODE = Elem(BB, "BB"), Elem(Var, "Var"), Elem(Node, "Node")
VSet = z3.ArraySort(Var, z3.BoolSort())
succ = z3.Function("succ", BB, BB, z3.BoolSort())
dsucc = z3.Function("dsucc", BB, BB, z3.BoolSort())
reach = z3.Function("reachable", BB, z3.BoolSort())
D = z3.Const("D", z3.ArraySort(BB, z3.BoolSort()))            # the block collection `bbs`
USED = z3.Const("USED", z3.ArraySort(BB, VSet))
USEDV = z3.Const("USEDV", z3.ArraySort(BB, z3.ArraySort(Var, Node)))
ASG = z3.Const("ASG", z3.ArraySort(BB, VSet))
ASGV = z3.Const("ASGV", z3.ArraySort(BB, z3.ArraySort(Var, Node)))
STATS_DOM = z3.Const("STATS_DOM", z3.ArraySort(BB, z3.BoolSort()))
b_, s_, p_, q_ = z3.Consts("b s p q", BB)
x_ = z3.Const("x", Var)


def bb_attr(it, o, name):
    b = o.t
    v = z3.Const("a!BB", BB)
    if name == "successors":
        return SColl(EBB, z3.Lambda([v], succ(b, v)))
    if name == "predecessors":
        return SColl(EBB, z3.Lambda([v], succ(v, b)))
    if name == "dummy_successors":
        return SColl(EBB, z3.Lambda([v], dsucc(b, v)))
    if name == "dummy_predecessors":
        return SColl(EBB, z3.Lambda([v], dsucc(v, b)))
    if name == "reachable":
        return SBool(reach(b))
    raise Unsupported(f"BB.{name}")


VS_CLS = ClassVal("VariableStats", builtin=True)
node_codec = elem_codec(ENODE)
stats_codec = Codec([VSet, z3.ArraySort(Var, Node), VSet, z3.ArraySort(Var, Node)],
                    lambda ts: SObj(VS_CLS, {"used": SDict(EVAR, node_codec, ts[0], [ts[1]]),
                                             "assigned": SDict(EVAR, node_codec, ts[2], [ts[3]])}),
                    lambda v: (_ for _ in ()).throw(Unsupported("store into stats")))
live_codec = dict_codec(EVAR, elem_codec(EBB))          # LivenessDomain = dict[Var, BB]
asg_codec = tuple_codec(set_codec(EVAR), set_codec(EVAR))  # (def, maybe)


def mk_stats():
    return SDict(EBB, stats_codec, STATS_DOM, [USED, USEDV, ASG, ASGV])


def edge(incl, a, b):
    return z3.Or(succ(a, b), dsucc(a, b)) if incl else succ(a, b)


def wf(incl, dom):
    """Preconditions derived from the call sites: `bbs` contains every neighbour of its members
    (all blocks of one CFG); stats has an entry for every block."""
    return [z3.ForAll([b_, s_], z3.Implies(z3.And(z3.Select(dom, b_), z3.Or(succ(b_, s_), dsucc(b_, s_))), z3.Select(dom, s_))),
            z3.ForAll([b_, s_], z3.Implies(z3.And(z3.Select(dom, s_), z3.Or(succ(b_, s_), dsucc(b_, s_))), z3.Select(dom, b_))),
            z3.ForAll([b_], z3.Implies(z3.Select(dom, b_), z3.Select(STATS_DOM, b_)))]


# ---------------------------------------------------------------------------------------------
# liveness
# ---------------------------------------------------------------------------------------------
INIT = z3.Const("INIT", VSet)
INITV = z3.Const("INITV", z3.ArraySort(Var, BB))
Pfam = z3.Const("Pfam", z3.ArraySort(BB, VSet))   # an arbitrary family closed under the equations
Qfam = z3.Const("Qfam", z3.ArraySort(BB, VSet))   # an arbitrary post-fixpoint family


def F_live(incl, L, b, x):
    return z3.Or(z3.Select(z3.Select(USED, b), x),
                 z3.And(z3.Not(z3.Select(z3.Select(ASG, b), x)),
                        z3.Exists([s_], z3.And(edge(incl, b, s_), z3.Select(z3.Select(L, s_), x)))))


def live_hyps(incl):
    return wf(incl, D) + [
        z3.ForAll([b_, x_], z3.Implies(z3.And(z3.Select(D, b_), F_live(incl, Pfam, b_, x_)), z3.Select(z3.Select(Pfam, b_), x_))),
        z3.ForAll([b_, x_], z3.Implies(z3.And(z3.Select(D, b_), z3.Select(z3.Select(Qfam, b_), x_)), F_live(incl, Qfam, b_, x_))),
    ]


def live_inv(incl, vb: SDict, queue: SSet):
    L = vb.cols[0]
    return z3.And(
        z3.ForAll([b_], z3.Select(vb.dom, b_) == z3.Select(D, b_)),
        z3.ForAll([b_], z3.Implies(z3.Select(queue.arr, b_), z3.Select(D, b_))),
        z3.ForAll([b_, x_], z3.Implies(z3.And(z3.Select(D, b_), z3.Not(z3.Select(queue.arr, b_))),
                                       z3.Select(z3.Select(L, b_), x_) == F_live(incl, L, b_, x_))),
        z3.ForAll([b_, x_], z3.Implies(z3.And(z3.Select(D, b_), z3.Not(z3.Select(INIT, x_)), z3.Select(z3.Select(L, b_), x_)),
                                       z3.Select(z3.Select(Pfam, b_), x_))),
        z3.ForAll([b_, x_], z3.Implies(z3.And(z3.Select(D, b_), z3.Select(INIT, x_), z3.Select(z3.Select(Qfam, b_), x_)),
                                       z3.Select(z3.Select(L, b_), x_))),
    )


def live_post(incl, res: SDict):
    L = res.cols[0]
    return z3.And(
        z3.ForAll([b_], z3.Select(res.dom, b_) == z3.Select(D, b_)),
        z3.ForAll([b_, x_], z3.Implies(z3.Select(D, b_), z3.Select(z3.Select(L, b_), x_) == F_live(incl, L, b_, x_))),
        z3.ForAll([b_, x_], z3.Implies(z3.And(z3.Select(D, b_), z3.Not(z3.Select(INIT, x_)), z3.Select(z3.Select(L, b_), x_)),
                                       z3.Select(z3.Select(Pfam, b_), x_))),
        z3.ForAll([b_, x_], z3.Implies(z3.And(z3.Select(D, b_), z3.Select(INIT, x_), z3.Select(z3.Select(Qfam, b_), x_)),
                                       z3.Select(z3.Select(L, b_), x_))),
    )


def fresh_livemap(it):
    dom = z3.Const(it.ctx.fresh_name("vb_dom"), z3.ArraySort(BB, z3.BoolSort()))
    c0 = z3.Const(it.ctx.fresh_name("vb_keys"), z3.ArraySort(BB, VSet))
    c1 = z3.Const(it.ctx.fresh_name("vb_wit"), z3.ArraySort(BB, z3.ArraySort(Var, BB)))
    return SDict(EBB, live_codec, dom, [c0, c1])


def fresh_set(it, name):
    return SSet(EBB, z3.Const(it.ctx.fresh_name(name), z3.ArraySort(BB, z3.BoolSort())))


def live_join_model(it, args, kwargs):
    """Contract of LivenessAnalysis.join (proved from its body below):
    keys(result) = union of keys(t) over ts; every witness comes from some t."""
    self_, ts = args[0], args[1:]
    if not (len(ts) == 1 and isinstance(ts[0], tuple) and ts[0][0] == "*sym"):
        raise Unsupported("join model expects a starred symbolic generator")
    gen = ts[0][1]
    k, v = gen.sample(it, "jn")
    rd = z3.Const(it.ctx.fresh_name("join_keys"), VSet)
    rv = z3.Const(it.ctx.fresh_name("join_wit"), z3.ArraySort(Var, BB))
    mem = z3.Select(gen.coll.arr, k)
    it.ctx.assume(z3.ForAll([x_], z3.Select(rd, x_) == z3.Exists([k], z3.And(mem, z3.Select(v.dom, x_)))))
    it.ctx.assume(z3.ForAll([x_], z3.Implies(z3.Select(rd, x_), z3.Exists([k], z3.And(mem, z3.Select(v.dom, x_), z3.Select(rv, x_) == z3.Select(v.cols[0], x_))))))
    return SDict(EVAR, elem_codec(EBB), rd, [rv])


def run(chk):
    # the analyses start from the per-block use / assign sets: what a block reads BEFORE assigning it and what it
    # assigns (BB.compute_variable_stats / VariableVisitor) — obligations shared with C08
    from .C08 import varstats_section
    for i in range(4):
        chk.section(f"variable-stats-{i}", lambda i=i: varstats_section(chk, i, 4))
    e = mk_engine(chk)
    e.elems = {"BB": EBB, "Var": EVAR, "Node": ENODE}
    e.opaque_attr["BB"] = bb_attr
    for q in ("BackwardAnalysis.run", "ForwardAnalysis.run", "LivenessAnalysis.__init__", "LivenessAnalysis.eq",
              "LivenessAnalysis.initial", "LivenessAnalysis.join", "LivenessAnalysis.apply_bb",
              "AssignmentAnalysis.__init__", "AssignmentAnalysis.initial", "AssignmentAnalysis.join",
              "AssignmentAnalysis.apply_bb"):
        e.func_info(MOD, q)
    chk.timeout_ms = 30000 if chk.tier == "quick" else 120000
    chk.finite_sizes = [{BB: 2, Var: 1}, {BB: 3, Var: 1}, {BB: 3, Var: 2}]
    e.empty_dict_codec = live_codec

    # ------------------------------------------------------------------ LivenessAnalysis.join from its body
    def join_spec_inv(it, fr):
        res = fr.locals["res"]
        P = fr.locals["__processed__"].arr
        gen = fr.locals["ts"].gen
        k, v = gen.sample(it, "ji")
        if isinstance(res, dict):
            if res:
                raise Unsupported("res")
            rd, rv = z3.K(Var, z3.BoolVal(False)), z3.K(Var, z3.Const("dflt!BB", BB))
        else:
            rd, rv = res.dom, res.cols[0]
        return z3.And(
            z3.ForAll([x_], z3.Select(rd, x_) == z3.Exists([k], z3.And(z3.Select(P, k), z3.Select(v.dom, x_)))),
            z3.ForAll([x_], z3.Implies(z3.Select(rd, x_), z3.Exists([k], z3.And(z3.Select(P, k), z3.Select(v.dom, x_), z3.Select(rv, x_) == z3.Select(v.cols[0], x_))))))

    def join_havoc(it, fr):
        fr.locals["res"] = SDict(EVAR, elem_codec(EBB), z3.Const(it.ctx.fresh_name("res_keys"), VSet),
                                 [z3.Const(it.ctx.fresh_name("res_wit"), z3.ArraySort(Var, BB))])
    e.loop_specs[f"{MOD}:LivenessAnalysis.join"] = {0: LoopSpec("t in ts", join_spec_inv, join_havoc, modifies={"res", "t"})}
    TS = z3.Const("TS", z3.ArraySort(BB, z3.BoolSort()))
    TK = z3.Const("TK", z3.ArraySort(BB, VSet))
    TW = z3.Const("TW", z3.ArraySort(BB, z3.ArraySort(Var, BB)))

    def t_join(it):
        LA = it.lookup_global(e.module(MOD), "LivenessAnalysis")
        la = SObj(LA, {"stats": mk_stats(), "_initial": SDict(EVAR, elem_codec(EBB), INIT, [INITV]), "_include_unreachable": True})
        gen = SGen(SColl(EBB, TS), lambda el: SDict(EVAR, elem_codec(EBB), z3.Select(TK, el.t), [z3.Select(TW, el.t)]))
        return it.call(it.getattr(la, "join"), [("*sym", gen)], {})

    def post_join(p):
        if p.kind != "return" or not isinstance(p.value, SDict):
            return z3.BoolVal(False)
        r = p.value
        return z3.And(
            z3.ForAll([x_], z3.Select(r.dom, x_) == z3.Exists([q_], z3.And(z3.Select(TS, q_), z3.Select(z3.Select(TK, q_), x_)))),
            z3.ForAll([x_], z3.Implies(z3.Select(r.dom, x_), z3.Exists([q_], z3.And(z3.Select(TS, q_), z3.Select(z3.Select(TK, q_), x_),
                                                                                z3.Select(r.cols[0], x_) == z3.Select(z3.Select(TW, q_), x_))))))
    chk.section("liveness-join", lambda: chk.prove_paths(
        "LivenessAnalysis.join:keys==union-of-keys/\\witness-from-some-argument", e.explore(t_join), post_join, func=f"{MOD}:LivenessAnalysis.join"))

    # ------------------------------------------------------------------ frames: join / apply_bb leave their arguments unchanged
    # (the fixpoint proof treats the dictionaries cached in vals_before as immutable values)
    def live_frames():
        spec = e.loop_specs.pop(f"{MOD}:LivenessAnalysis.join", None)     # concrete argument lists: the loop is unrolled
        same = lambda a, b: z3.ForAll([x_], z3.Select(a, x_) == z3.Select(b, x_))  # noqa: E731
        for n in (1, 2, 3):
            Ks = [z3.Const(f"FK{k}", VSet) for k in range(n)]
            Ws = [z3.Const(f"FW{k}", z3.ArraySort(Var, BB)) for k in range(n)]

            def t(it, n=n, Ks=Ks, Ws=Ws):
                LA = it.lookup_global(e.module(MOD), "LivenessAnalysis")
                la = SObj(LA, {"stats": mk_stats(), "_initial": SDict(EVAR, elem_codec(EBB), INIT, [INITV]), "_include_unreachable": True})
                ts = [SDict(EVAR, elem_codec(EBB), Ks[k], [Ws[k]]) for k in range(n)]
                return it.call(it.getattr(la, "join"), list(ts), {}), ts

            def post(p, n=n, Ks=Ks, Ws=Ws):
                if p.kind != "return" or not isinstance(p.value[0], SDict):
                    return z3.BoolVal(False)
                r, ts = p.value
                return z3.And(z3.ForAll([x_], z3.Select(r.dom, x_) == z3.Or(*[z3.Select(K, x_) for K in Ks])),
                              *[same(ts[k].dom, Ks[k]) for k in range(n)],
                              *[z3.ForAll([x_], z3.Implies(z3.Select(Ks[k], x_), z3.Select(ts[k].cols[0], x_) == z3.Select(Ws[k], x_))) for k in range(n)])
            chk.prove_paths(f"LivenessAnalysis.join[{n}-arguments]:keys==union/\\every-argument-dictionary-left-unchanged", e.explore(t), post, func=f"{MOD}:LivenessAnalysis.join")
        LK, LW, bb0 = z3.Const("FLK", VSet), z3.Const("FLW", z3.ArraySort(Var, BB)), z3.Const("FB", BB)

        def t_apply(it):
            LA = it.lookup_global(e.module(MOD), "LivenessAnalysis")
            it.ctx.assume(z3.Select(STATS_DOM, bb0))
            la = SObj(LA, {"stats": mk_stats(), "_initial": SDict(EVAR, elem_codec(EBB), INIT, [INITV]), "_include_unreachable": True})
            live = SDict(EVAR, elem_codec(EBB), LK, [LW])
            return it.call(it.getattr(la, "apply_bb"), [live, EBB.wrap(bb0)], {}), live

        def post_apply(p):
            if p.kind != "return" or not isinstance(p.value[0], SDict):
                return z3.BoolVal(False)
            r, live = p.value
            used = lambda x: z3.Select(z3.Select(USED, bb0), x)  # noqa: E731
            asg = lambda x: z3.Select(z3.Select(ASG, bb0), x)  # noqa: E731
            return z3.And(z3.ForAll([x_], z3.Select(r.dom, x_) == z3.Or(used(x_), z3.And(z3.Select(LK, x_), z3.Not(asg(x_))))),
                          same(live.dom, LK), z3.ForAll([x_], z3.Implies(z3.Select(LK, x_), z3.Select(live.cols[0], x_) == z3.Select(LW, x_))))
        chk.prove_paths("LivenessAnalysis.apply_bb:keys==used+(live_after-assigned)/\\live_after-left-unchanged", e.explore(t_apply), post_apply, func=f"{MOD}:LivenessAnalysis.apply_bb")
        if spec is not None:
            e.loop_specs[f"{MOD}:LivenessAnalysis.join"] = spec
    chk.section("liveness-frames", live_frames)

    # ------------------------------------------------------------------ BackwardAnalysis.run (liveness instance)
    def backward(incl):
        def run_inv(it, fr, incl=incl):
            return live_inv(incl, fr.locals["vals_before"], fr.locals["queue"])

        def run_havoc(it, fr):
            fr.locals["vals_before"] = fresh_livemap(it)
            fr.locals["queue"] = fresh_set(it, "queue")
            for n in ("bb", "succs", "val_after", "val_before"):
                fr.locals.pop(n, None)
        e.loop_specs[f"{MOD}:BackwardAnalysis.run"] = {0: LoopSpec("len(queue) > 0", run_inv, run_havoc,
                                                                   modifies={"vals_before", "queue", "bb", "succs", "val_after", "val_before"})}
        e.models[f"{MOD}:LivenessAnalysis.join"] = live_join_model

        def t_run(it, incl=incl):
            LA = it.lookup_global(e.module(MOD), "LivenessAnalysis")
            for h in live_hyps(incl):
                it.ctx.assume(h)
            la = it.call(LA, [mk_stats(), SDict(EVAR, elem_codec(EBB), INIT, [INITV]), incl], {})
            return it.call(it.getattr(la, "run"), [SColl(EBB, D)], {})
        paths = e.explore(t_run)

        def post_run(p, incl=incl):
            if p.kind != "return" or not isinstance(p.value, SDict):
                return z3.BoolVal(False)
            return live_post(incl, p.value)
        chk.prove_paths(f"BackwardAnalysis.run[liveness,include_unreachable={incl}]:fixpoint/\\least-outside-initial/\\greatest-inside-initial",
                        paths, post_run, func=f"{MOD}:BackwardAnalysis.run", replay=replay_live(incl))
        chk.record(f"BackwardAnalysis.run[{incl}]:loop-cut-and-exit-paths-both-explored",
                   any(p.kind == "cut" for p in paths) and any(p.kind == "return" for p in paths), str([p.kind for p in paths]), kind="reachability")
        e.models.pop(f"{MOD}:LivenessAnalysis.join", None)
    for incl in (True, False):
        chk.section(f"backward-{incl}", lambda incl=incl: backward(incl))

    # uniqueness lemma (pure): two results with the proved properties coincide => order independence
    L1 = z3.Const("L1", z3.ArraySort(BB, VSet))
    L2 = z3.Const("L2", z3.ArraySort(BB, VSet))

    def lemma(incl):
        def fix(L):
            return z3.ForAll([b_, x_], z3.Implies(z3.Select(D, b_), z3.Select(z3.Select(L, b_), x_) == F_live(incl, L, b_, x_)))

        def least_vs(L, P):   # L below closed P outside INIT  (P = the other result: closed because it is a fixpoint)
            return z3.ForAll([b_, x_], z3.Implies(z3.And(z3.Select(D, b_), z3.Not(z3.Select(INIT, x_)), z3.Select(z3.Select(L, b_), x_)), z3.Select(z3.Select(P, b_), x_)))

        def greatest_vs(L, Q):
            return z3.ForAll([b_, x_], z3.Implies(z3.And(z3.Select(D, b_), z3.Select(INIT, x_), z3.Select(z3.Select(Q, b_), x_)), z3.Select(z3.Select(L, b_), x_)))
        chk.prove(f"lemma:liveness-result-unique[include_unreachable={incl}]=>independent-of-visit-order",
                  wf(incl, D) + [fix(L1), fix(L2), least_vs(L1, L2), least_vs(L2, L1), greatest_vs(L1, L2), greatest_vs(L2, L1)],
                  z3.ForAll([b_, x_], z3.Implies(z3.Select(D, b_), z3.Select(z3.Select(L1, b_), x_) == z3.Select(z3.Select(L2, b_), x_))),
                  func=f"{MOD}:BackwardAnalysis.run")

    chk.section("lemmas", lambda: (lemma(True), lemma(False),
                                   chk.must_fail("twin:equations-do-not-force-everything-live", wf(True, D), z3.ForAll([b_, x_], F_live(True, Pfam, b_, x_)))))
    from .C09_forward import run_forward
    run_forward(chk, e)
    # CFG.analyze: the two analyses are run over ALL blocks with include_unreachable=True (liveness
    # and assignment alike), so code behind never-taken edges keeps its variables live / assigned
    from .C08 import analyze_section
    chk.section("cfg-analyze", lambda: analyze_section(chk))
    chk.expected_min_obligations = 20
    chk.assumptions += [
        "BB.predecessors / dummy_predecessors are the inverse relations of successors / dummy_successors (established by CFG.new_bb/link/dummy_link)",
        "`bbs` contains every (dummy) neighbour of its members and stats has an entry per block (call sites pass cfg.bbs and a dict comprehension over cfg.bbs)",
        "lists of blocks are modelled as the set of their elements; set.pop() returns an arbitrary member",
        "the liveness dictionary is abstracted to key set + witness function (the code's eq compares keys only); witnesses are only shown to come from some successor / the block itself",
        "termination of the worklist loops is not proved",
        "the path characterisation (least solution == 'read on some path before being reassigned') is the standard fixpoint lemma, stated in DESIGN.md; here: fixpoint + extremality + uniqueness",
    ]
    chk.use_engine(e)


REPLAY_LIVE = r'''
# Native replay: build the CFG of the counter-model with the real BB objects, run the real
# LivenessAnalysis under EVERY pop order (the module-level name `set` of analysis.py is shadowed by
# a scheduler-driven set; /repo is not touched) and compare with the extremal solution computed
# independently.
import itertools
import guppylang_internals.cfg.analysis as A
from guppylang_internals.cfg.bb import BB, VariableStats
I = INPUT
n, incl = I["n"], I["incl"]
def build():
    bbs = [BB(i, None) for i in range(n)]
    for a, b in I["succ"]:
        bbs[a].successors.append(bbs[b]); bbs[b].predecessors.append(bbs[a])
    for a, b in I["dsucc"]:
        bbs[a].dummy_successors.append(bbs[b]); bbs[b].dummy_predecessors.append(bbs[a])
    stats = {bbs[i]: VariableStats(assigned={v: None for v in I["asg"][i]}, used={v: None for v in I["used"][i]}) for i in range(n)}
    return bbs, stats
class Sched(set):
    order = []
    def pop(self):
        for i in list(Sched.order):
            for b in self:
                if b.idx == i:
                    Sched.order.remove(i); self.remove(b); return b
        return set.pop(self)
A.set = Sched
def reference():
    # per variable: least fixpoint outside the initial set, greatest inside
    vars_ = sorted({v for i in range(n) for v in I["used"][i] + I["asg"][i]} | set(I["init"]))
    edges = {i: [b for a, b in I["succ"] if a == i] + ([b for a, b in I["dsucc"] if a == i] if incl else []) for i in range(n)}
    res = {i: set() for i in range(n)}
    for v in vars_:
        cur = {i: (v in I["init"]) for i in range(n)}
        changed = True
        while changed:
            changed = False
            for i in range(n):
                new = (v in I["used"][i]) or ((v not in I["asg"][i]) and any(cur[s] for s in edges[i]))
                if new != cur[i]:
                    cur[i] = new; changed = True
        for i in range(n):
            if cur[i]: res[i].add(v)
    return res
def attempt(I_):
    global I, n
    I, n = I_, I_["n"]
    ref = reference()
    outs, bad = {}, None
    for perm in itertools.islice(itertools.product(range(n), repeat=min(2 * n, 6)), I_.get("max_orders", 4000)):
        bbs, stats = build()
        Sched.order = list(perm)
        r = A.LivenessAnalysis(stats, initial={v: bbs[0] for v in I["init"]}, include_unreachable=incl).run(bbs)
        got = {b.idx: set(r[b].keys()) for b in bbs}
        key = str(sorted((k, sorted(v)) for k, v in got.items()))
        outs.setdefault(key, perm)
        if got != ref and bad is None:
            bad = {"order": list(perm), "got": {k: sorted(v) for k, v in got.items()}, "want": {k: sorted(v) for k, v in ref.items()}}
    return bad, len(outs)
I0 = I
bad, nouts = attempt(I0)
found_in = "counter-model CFG"
if bad is None and nouts <= 1:
    # the counter-model to inductiveness need not be reachable: bounded search over small CFGs
    # (counterexample FINDER only; a miss proves nothing and leaves the line no-failing-input-found)
    import random
    rnd = random.Random(I0.get("seed", 0))
    for trial in range(3000):
        m = rnd.choice([2, 3, 3, 4])
        vs = ["v0", "v1", "v2"][: rnd.choice([1, 2, 2, 3])]
        J = {"n": m, "incl": incl, "max_orders": 60,
             "succ": [[a, b] for a in range(m) for b in range(m) if rnd.random() < 0.3],
             "dsucc": [[a, b] for a in range(m) for b in range(m) if rnd.random() < 0.12] if incl else [],
             "used": [[v for v in vs if rnd.random() < 0.3] for _ in range(m)],
             "asg": [[v for v in vs if rnd.random() < 0.3] for _ in range(m)],
             "init": [v for v in vs if rnd.random() < 0.4]}
        bad, nouts = attempt(J)
        if bad is not None or nouts > 1:
            found_in = "bounded search over random small CFGs (trial %d)" % trial
            break
print(json.dumps({"violates": bad is not None or nouts > 1, "distinct_results_over_orders": nouts, "witness": bad, "cfg": I, "found_in": found_in}))
'''


def replay_live(incl):
    def rp(m, fin=None):
        if fin is None:
            return None
        bbs, vs = fin.dom["BB"], fin.dom["Var"]
        def T(t):
            return z3.is_true(m.eval(fin.expand(t), model_completion=True))
        n = len(bbs)
        inp = {"n": n, "incl": incl,
               "succ": [[i, j] for i in range(n) for j in range(n) if T(succ(bbs[i], bbs[j]))],
               "dsucc": [[i, j] for i in range(n) for j in range(n) if T(dsucc(bbs[i], bbs[j]))],
               "used": [[f"v{k}" for k, v in enumerate(vs) if T(z3.Select(z3.Select(USED, bbs[i]), v))] for i in range(n)],
               "asg": [[f"v{k}" for k, v in enumerate(vs) if T(z3.Select(z3.Select(ASG, bbs[i]), v))] for i in range(n)],
               "init": [f"v{k}" for k, v in enumerate(vs) if T(z3.Select(INIT, v))]}
        return {"script": REPLAY_LIVE, "input": inp}
    return rp
