"""Guppy mode: values and operator semantics for std-library code that is written in Python
syntax but executed with Guppy semantics.

 * int / nat are 64-bit vectors (GInt with a type tag), float is IEEE binary64 (GFloat), bool is a
   z3 Bool (GBool).
 * every operator / builtin re-dispatches through the *binding table extracted from the real
   source* (contracts/bindings.py): the dunder a Python operator maps to, then the HUGR op that
   dunder is bound to.
 * OPSEM is the ASSUMED contract of the external HUGR ops, transcribed from the op descriptions
   shipped in hugr.std (printed in the evidence).  PYSPEC is Python's semantics of the same
   operator reduced modulo 2^64, i.e. the postcondition taken from the property statement.
"""
import ast

import z3

from pyvc import (Sym, SObj, ClassVal, Builtin, FuncVal, Unsupported, PyRaise, SBool, SInt, lift, Frame)

W = 64
FP = z3.Float64()
RNE = z3.RNE()


def bv(n):
    return z3.BitVecVal(n, W)


class GVal(Sym):
    ty = "?"

    def __repr__(self):
        return f"G{self.ty}({self.t})"


class GInt(GVal):
    def __init__(self, t, ty):
        assert ty in ("int", "nat")
        self.t = t
        self.ty = ty


class GFloat(GVal):
    ty = "float"

    def __init__(self, t):
        self.t = t


class GBool(GVal):
    ty = "bool"

    def __init__(self, t):
        self.t = t


class GuppyPanic(Exception):
    pass


# ----------------------------------------------------------------------------------------------
# ASSUMED semantics of HUGR ops on 64-bit vectors / binary64  (hugr.std op descriptions)
# each entry: f(*args) -> (result | tuple of results, panic_condition)
# ----------------------------------------------------------------------------------------------
def _divmod_s(n, m):
    """idivmod_s: signed n, UNSIGNED m: q*m+r=n, 0<=r<m.  Computed at 66 bits (m zero-extended)."""
    n2, m2 = z3.SignExt(2, n), z3.ZeroExt(2, m)
    t, rem = n2 / m2, z3.SRem(n2, m2)
    q = z3.If(rem < 0, t - 1, t)
    r = z3.If(rem < 0, rem + m2, rem)
    return z3.Extract(W - 1, 0, q), z3.Extract(W - 1, 0, r)


def _pow_bv(a, b, unroll=None):
    return z3.Function("ipow", z3.BitVecSort(W), z3.BitVecSort(W), z3.BitVecSort(W))(a, b)


F_T = z3.FPSort(11, 53)
fpow_f = z3.Function("fpow", F_T, F_T, F_T)
fround_f = z3.Function("fround", F_T, F_T)

I63 = z3.FPVal(2.0 ** 63, FP)
I64 = z3.FPVal(2.0 ** 64, FP)


def _trunc_s(x):
    # float to signed int: defined iff the truncated value fits (else the op yields an error sum
    # that UnwrapOpCompiler turns into a panic)
    bad = z3.Or(z3.fpIsNaN(x), z3.fpIsInf(x), z3.fpGEQ(x, I63), z3.fpLT(x, z3.fpNeg(I63)))
    return z3.fpToSBV(z3.RTZ(), x, z3.BitVecSort(W)), bad


def _trunc_u(x):
    bad = z3.Or(z3.fpIsNaN(x), z3.fpIsInf(x), z3.fpGEQ(x, I64), z3.fpLEQ(x, z3.FPVal(-1.0, FP)))
    return z3.fpToUBV(z3.RTZ(), x, z3.BitVecSort(W)), bad


NO = z3.BoolVal(False)
OPSEM = {
    ("arithmetic.int", "iadd"): lambda a, b: (a + b, NO),
    ("arithmetic.int", "isub"): lambda a, b: (a - b, NO),
    ("arithmetic.int", "imul"): lambda a, b: (a * b, NO),
    ("arithmetic.int", "ineg"): lambda a: (-a, NO),
    ("arithmetic.int", "iabs"): lambda a: (z3.If(a < 0, -a, a), NO),
    # checked conversions (hugr spec; the selene lowering panics with "is_to_u called on negative value" /
    # "iu_to_s argument out of bounds"): the value is kept, a value the target cannot hold is a panic
    ("arithmetic.int", "is_to_u"): lambda a: (a, a < 0),
    ("arithmetic.int", "iu_to_s"): lambda a: (a, a < 0),
    ("arithmetic.int", "iand"): lambda a, b: (a & b, NO),
    ("arithmetic.int", "ior"): lambda a, b: (a | b, NO),
    ("arithmetic.int", "ixor"): lambda a, b: (a ^ b, NO),
    ("arithmetic.int", "inot"): lambda a: (~a, NO),
    ("arithmetic.int", "ishl"): lambda a, k: (z3.If(z3.UGE(k, W), bv(0), a << k), NO),
    ("arithmetic.int", "ishr"): lambda a, k: (z3.If(z3.UGE(k, W), bv(0), z3.LShR(a, k)), NO),
    ("arithmetic.int", "ieq"): lambda a, b: (a == b, NO),
    ("arithmetic.int", "ine"): lambda a, b: (a != b, NO),
    ("arithmetic.int", "ilt_s"): lambda a, b: (a < b, NO),
    ("arithmetic.int", "ile_s"): lambda a, b: (a <= b, NO),
    ("arithmetic.int", "igt_s"): lambda a, b: (a > b, NO),
    ("arithmetic.int", "ige_s"): lambda a, b: (a >= b, NO),
    ("arithmetic.int", "ilt_u"): lambda a, b: (z3.ULT(a, b), NO),
    ("arithmetic.int", "ile_u"): lambda a, b: (z3.ULE(a, b), NO),
    ("arithmetic.int", "igt_u"): lambda a, b: (z3.UGT(a, b), NO),
    ("arithmetic.int", "ige_u"): lambda a, b: (z3.UGE(a, b), NO),
    ("arithmetic.int", "idiv_u"): lambda a, b: (z3.UDiv(a, b), b == 0),
    ("arithmetic.int", "imod_u"): lambda a, b: (z3.URem(a, b), b == 0),
    ("arithmetic.int", "idivmod_u"): lambda a, b: ((z3.UDiv(a, b), z3.URem(a, b)), b == 0),
    ("arithmetic.int", "idiv_s"): lambda a, b: (_divmod_s(a, b)[0], b == 0),
    ("arithmetic.int", "imod_s"): lambda a, b: (_divmod_s(a, b)[1], b == 0),
    ("arithmetic.int", "idivmod_s"): lambda a, b: (_divmod_s(a, b), b == 0),
    ("arithmetic.int", "ipow"): lambda a, b: (_pow_bv(a, b), NO),
    ("arithmetic.conversions", "convert_s"): lambda a: (z3.fpSignedToFP(RNE, a, FP), NO),
    ("arithmetic.conversions", "convert_u"): lambda a: (z3.fpUnsignedToFP(RNE, a, FP), NO),
    ("arithmetic.conversions", "trunc_s"): lambda x: _trunc_s(x),
    ("arithmetic.conversions", "trunc_u"): lambda x: _trunc_u(x),
    ("arithmetic.float", "fadd"): lambda a, b: (z3.fpAdd(RNE, a, b), NO),
    ("arithmetic.float", "fsub"): lambda a, b: (z3.fpSub(RNE, a, b), NO),
    ("arithmetic.float", "fmul"): lambda a, b: (z3.fpMul(RNE, a, b), NO),
    ("arithmetic.float", "fdiv"): lambda a, b: (z3.fpDiv(RNE, a, b), NO),
    ("arithmetic.float", "fneg"): lambda a: (z3.fpNeg(a), NO),
    ("arithmetic.float", "fabs"): lambda a: (z3.fpAbs(a), NO),
    ("arithmetic.float", "ffloor"): lambda a: (z3.fpRoundToIntegral(z3.RTN(), a), NO),
    ("arithmetic.float", "fceil"): lambda a: (z3.fpRoundToIntegral(z3.RTP(), a), NO),
    ("arithmetic.float", "fround"): lambda a: (fround_f(a), NO),
    ("arithmetic.float", "fpow"): lambda a, b: (fpow_f(a, b), NO),
    ("arithmetic.float", "feq"): lambda a, b: (z3.fpEQ(a, b), NO),
    ("arithmetic.float", "fne"): lambda a, b: (z3.Not(z3.fpEQ(a, b)), NO),
    ("arithmetic.float", "flt"): lambda a, b: (z3.fpLT(a, b), NO),
    ("arithmetic.float", "fle"): lambda a, b: (z3.fpLEQ(a, b), NO),
    ("arithmetic.float", "fgt"): lambda a, b: (z3.fpGT(a, b), NO),
    ("arithmetic.float", "fge"): lambda a, b: (z3.fpGEQ(a, b), NO),
    ("tket.bool", "and"): lambda a, b: (z3.And(a, b), NO),
    ("tket.bool", "or"): lambda a, b: (z3.Or(a, b), NO),
    ("tket.bool", "xor"): lambda a, b: (z3.Xor(a, b), NO),
    ("tket.bool", "eq"): lambda a, b: (a == b, NO),
    ("tket.bool", "not"): lambda a: (z3.Not(a), NO),
}
OPSEM_TEXT = {
    "iadd/isub/imul/ineg": "modulo 2^64 (bvadd/bvsub/bvmul/bvneg)",
    "iabs": "absolute value of the signed reading, modulo 2^64", "is_to_u,iu_to_s": "the same value; panic if the target reading cannot hold it (negative signed source / unsigned source >= 2^63)",
    "ishl/ishr": "shift by the UNSIGNED reading of the 2nd input; ishr fills with zeros (logical); shifts >= 64 give 0",
    "i{lt,le,gt,ge}_{s,u}": "signed / unsigned comparison", "ieq/ine": "bit equality",
    "idivmod_u": "unsigned q,r with q*m+r=n, 0<=r<m; m=0 panics",
    "idivmod_s": "n signed, m UNSIGNED: q signed, r unsigned with q*m+r=n, 0<=r<m; m=0 panics",
    "ipow": "uninterpreted (a ring-homomorphic power: assumed equal to Python's ** reduced mod 2^64 for exponents read as unsigned)",
    "convert_s/convert_u": "round-to-nearest-even of the signed / unsigned reading",
    "trunc_s/trunc_u": "round toward zero; error (-> panic via UnwrapOpCompiler) when NaN/inf/out of range",
    "float ops": "IEEE-754 binary64 with round-to-nearest-even; ffloor/fceil round to integral; fpow, fround uninterpreted",
    "tket.bool and/or/xor/eq/not": "boolean connectives",
}


# ----------------------------------------------------------------------------------------------
# Python's semantics reduced mod 2^64 (the specification side)
# value of an `int` bit pattern is its signed reading, of a `nat` its unsigned reading
# each entry: f(a, b) -> (result, defined) ; result is a BV64 / FP / Bool term
# ----------------------------------------------------------------------------------------------
def _floordiv_s(a, b):
    a2, b2 = z3.SignExt(2, a), z3.SignExt(2, b)
    t, rem = a2 / b2, z3.SRem(a2, b2)
    adj = z3.And(rem != 0, (rem < 0) != (b2 < 0))
    q = z3.If(adj, t - 1, t)
    r = z3.If(adj, rem + b2, rem)
    return z3.Extract(W - 1, 0, q), z3.Extract(W - 1, 0, r)


def _shift_ok(k, signed):
    return z3.And(k >= 0, k < W) if signed else z3.ULT(k, W)


def pyspec(ty, dunder):
    s = ty == "int"
    T = z3.BoolVal(True)
    lt = (lambda a, b: a < b) if s else z3.ULT
    le = (lambda a, b: a <= b) if s else z3.ULE
    tab = {
        "__add__": lambda a, b: (a + b, T), "__sub__": lambda a, b: (a - b, T),
        "__mul__": lambda a, b: (a * b, T),
        "__and__": lambda a, b: (a & b, T), "__or__": lambda a, b: (a | b, T),
        "__xor__": lambda a, b: (a ^ b, T),
        "__eq__": lambda a, b: (a == b, T), "__ne__": lambda a, b: (a != b, T),
        "__lt__": lambda a, b: (lt(a, b), T), "__le__": lambda a, b: (le(a, b), T),
        "__gt__": lambda a, b: (lt(b, a), T), "__ge__": lambda a, b: (le(b, a), T),
        "__lshift__": lambda a, k: (a << k, _shift_ok(k, s)),
        "__rshift__": lambda a, k: ((a >> k) if s else z3.LShR(a, k), _shift_ok(k, s)),
        "__floordiv__": (lambda a, b: (_floordiv_s(a, b)[0], b != 0)) if s else (lambda a, b: (z3.UDiv(a, b), b != 0)),
        "__mod__": (lambda a, b: (_floordiv_s(a, b)[1], b != 0)) if s else (lambda a, b: (z3.URem(a, b), b != 0)),
        "__divmod__": (lambda a, b: (_floordiv_s(a, b), b != 0)) if s else (lambda a, b: ((z3.UDiv(a, b), z3.URem(a, b)), b != 0)),
        "__pow__": lambda a, b: (_pow_bv(a, b), (b >= 0) if s else T),
        "__neg__": lambda a: (-a, T), "__pos__": lambda a: (a, T), "__invert__": lambda a: (~a, T),
        "__abs__": lambda a: (z3.If(a < 0, -a, a) if s else a, T),
        "__bool__": lambda a: (a != 0, T),
        "__int__": lambda a: (a, T), "__nat__": lambda a: (a, (a >= 0) if s else T),
        "__float__": lambda a: ((z3.fpSignedToFP if s else z3.fpUnsignedToFP)(RNE, a, FP), T),
        "__truediv__": lambda a, b: (z3.fpDiv(RNE, (z3.fpSignedToFP if s else z3.fpUnsignedToFP)(RNE, a, FP),
                                              (z3.fpSignedToFP if s else z3.fpUnsignedToFP)(RNE, b, FP)), b != 0),
        "__floor__": lambda a: (a, T), "__ceil__": lambda a: (a, T), "__trunc__": lambda a: (a, T),
        "__round__": lambda a: (a, T),
    }
    return tab.get(dunder)


def pyspec_float(dunder):
    T = z3.BoolVal(True)
    fin = lambda x: z3.Not(z3.Or(z3.fpIsNaN(x), z3.fpIsInf(x)))  # noqa
    tab = {
        "__add__": lambda a, b: (z3.fpAdd(RNE, a, b), T), "__sub__": lambda a, b: (z3.fpSub(RNE, a, b), T),
        "__mul__": lambda a, b: (z3.fpMul(RNE, a, b), T),
        "__truediv__": lambda a, b: (z3.fpDiv(RNE, a, b), z3.Not(z3.fpIsZero(b))),
        "__neg__": lambda a: (z3.fpNeg(a), T), "__pos__": lambda a: (a, T), "__abs__": lambda a: (z3.fpAbs(a), T),
        "__eq__": lambda a, b: (z3.fpEQ(a, b), T), "__ne__": lambda a, b: (z3.Not(z3.fpEQ(a, b)), T),
        "__lt__": lambda a, b: (z3.fpLT(a, b), T), "__le__": lambda a, b: (z3.fpLEQ(a, b), T),
        "__gt__": lambda a, b: (z3.fpGT(a, b), T), "__ge__": lambda a, b: (z3.fpGEQ(a, b), T),
        "__bool__": lambda a: (z3.Not(z3.fpIsZero(a)), T),
        "__float__": lambda a: (a, T),
        "__int__": lambda a: (z3.fpToSBV(z3.RTZ(), a, z3.BitVecSort(W)),
                              z3.And(fin(a), z3.fpLT(a, I63), z3.fpGEQ(a, z3.fpNeg(I63)))),
        "__nat__": lambda a: (z3.fpToUBV(z3.RTZ(), a, z3.BitVecSort(W)),
                              z3.And(fin(a), z3.fpLT(a, I64), z3.fpGT(a, z3.FPVal(-1.0, FP)))),
        "__floor__": lambda a: (z3.fpRoundToIntegral(z3.RTN(), a), fin(a)),
        "__ceil__": lambda a: (z3.fpRoundToIntegral(z3.RTP(), a), fin(a)),
        "__pow__": lambda a, b: (fpow_f(a, b), T),
    }
    return tab.get(dunder)


def pyspec_bool(dunder):
    T = z3.BoolVal(True)
    tab = {
        "__and__": lambda a, b: (z3.And(a, b), T), "__or__": lambda a, b: (z3.Or(a, b), T),
        "__xor__": lambda a, b: (z3.Xor(a, b), T), "__eq__": lambda a, b: (a == b, T),
        "__ne__": lambda a, b: (a != b, T), "__bool__": lambda a: (a, T),
        "__int__": lambda a: (z3.If(a, bv(1), bv(0)), T), "__nat__": lambda a: (z3.If(a, bv(1), bv(0)), T),
    }
    return tab.get(dunder)


BIN_DUNDER = {"+": "add", "-": "sub", "*": "mul", "/": "truediv", "//": "floordiv", "%": "mod", "**": "pow",
              "<<": "lshift", ">>": "rshift", "|": "or", "^": "xor", "&": "and"}
CMP_DUNDER = {"==": ("__eq__", "__eq__"), "!=": ("__ne__", "__ne__"), "<": ("__lt__", "__gt__"),
              "<=": ("__le__", "__ge__"), ">": ("__gt__", "__lt__"), ">=": ("__ge__", "__le__")}
KIND_ORDER = {"bool": -1, "nat": 0, "int": 1, "float": 2}


class GuppyWorld:
    """Guppy-mode evaluator bound to one pyvc interpreter and to the extracted binding tables."""

    def __init__(self, e, it, tables):
        self.e, self.it, self.tables = e, it, tables  # tables: {'nat': {...}, 'int':..., 'float':..., 'bool':...}
        self.trace = []
        _install(self)

    # ---- value helpers
    def wrap(self, term, ty):
        if ty in ("int", "nat"):
            return GInt(term, ty)
        if ty == "float":
            return GFloat(term)
        if ty == "bool":
            return GBool(term) if not isinstance(term, bool) else GBool(z3.BoolVal(term))
        raise Unsupported(f"guppy type {ty}")

    def literal(self, v, hint=None):
        if isinstance(v, bool):
            return GBool(z3.BoolVal(v))
        if isinstance(v, int):
            ty = "nat" if (hint == "nat" and v >= 0) else "int"
            return GInt(bv(v), ty)
        if isinstance(v, float):
            return GFloat(z3.FPVal(v, FP))
        if isinstance(v, SBool):
            return GBool(v.t)
        return v

    def coerce(self, v, ty):
        """Implicit coercion of an argument to a parameter type (C16: only widening)."""
        if not isinstance(v, GVal):
            v = self.literal(v, ty)
        if not isinstance(v, GVal):
            raise GuppyTypeErr(f"cannot pass {v!r} as {ty}")
        if v.ty == ty:
            return v
        if v.ty in ("nat", "int", "float") and ty in ("int", "float") and KIND_ORDER[v.ty] < KIND_ORDER[ty]:
            return self.gcall(v.ty, f"__{ty}__", [v])
        raise GuppyTypeErr(f"cannot coerce {v.ty} to {ty}")

    def ann_ty(self, ann, cls):
        if ann is None:
            return None
        a = ann.strip("'\"")
        if a in ("int", "nat", "float", "bool"):
            return a
        if a.startswith("tuple["):
            return tuple(x.strip() for x in a[6:-1].split(","))
        return a

    # ---- calls
    def gcall(self, ty, name, args):
        tab = self.tables.get(ty)
        if tab is None or name not in tab:
            raise GuppyTypeErr(f"{ty} has no method {name}")
        b = tab[name]
        self.trace.append((ty, name))
        ptys = [self.ann_ty(a, ty) for _, a in b.params]
        if len(args) != len(ptys):
            raise GuppyTypeErr(f"{ty}.{name}: arity")
        if b.checker and b.checker[0] == "ReversingChecker":
            # contract of ReversingChecker (proved in C04 from its real code): __rX__(self, other)
            # is __X__ of type(self) called with (other, self)
            fwd = "__" + name[3:]
            return self.gcall(ty, fwd, [args[1], args[0]])
        args = [self.coerce(a, p) if p in ("int", "nat", "float", "bool") else a for a, p in zip(args, ptys)]
        rty = self.ann_ty(b.ret, ty)
        if b.kind in ("hugr_op", "custom") and b.op is not None:
            sem = OPSEM.get((b.op[0], b.op[1]))
            if sem is None:
                raise Unsupported(f"no assumed semantics for HUGR op {b.op}")
            res, panic = sem(*[a.t for a in args])
            if not z3.is_false(panic) and self.it.ctx.branch(panic):
                raise PyRaise(self.it.make_exc("RuntimeError", f"guppy panic in {b.op[1]}"))
            if isinstance(res, tuple):
                return tuple(self.wrap(r, t) for r, t in zip(res, rty))
            return self.wrap(res, rty)
        if b.compiler == "NoopCompiler":
            return self.wrap(args[0].t, rty)
        if b.kind == "guppy":
            m = self.e.module(b.module)
            fv = FuncVal(b.node, m, None, f"{b.cls}.{b.name}")
            fv.guppy_cls = b.cls
            return self.it.call(fv, args, {})
        raise Unsupported(f"binding kind of {ty}.{name}: {b}")

    def binary(self, op, l, r):
        """Contract of ExprSynthesizer._synthesize_binary: left dunder, else reflected dunder."""
        lop, rop = "__%s__" % BIN_DUNDER[op], "__r%s__" % BIN_DUNDER[op]
        return self._two(lop, rop, l, r)

    def compare(self, op, l, r):
        lop, rop = CMP_DUNDER[op]
        return self._two(lop, rop, l, r)

    def _two(self, lop, rop, l, r):
        l, r = self.literal(l, getattr(r, "ty", None)), self.literal(r, getattr(l, "ty", None))
        try:
            return self.gcall(l.ty, lop, [l, r])
        except GuppyTypeErr:
            pass
        return self.gcall(r.ty, rop, [r, l])


class GuppyTypeErr(Exception):
    pass


def _install(world):
    """Operator hooks of GVal dispatch through the world's tables."""
    def binop(self, it, op, other, reflected):
        l, r = (other, self) if reflected else (self, other)
        return world.binary(op, l, r)

    def cmp(self, it, op, other):
        return world.compare(op, self, other)

    def unop(self, it, op):
        if op is ast.Not:
            b = world.gcall(self.ty, "__bool__", [self])
            return GBool(z3.Not(b.t))
        name = {ast.USub: "__neg__", ast.UAdd: "__pos__", ast.Invert: "__invert__"}[op]
        return world.gcall(self.ty, name, [self])

    def truth(self, it):
        b = self if isinstance(self, GBool) else world.gcall(self.ty, "__bool__", [self])
        return SBool(b.t)

    def getattr_(self, it, name):
        if name.startswith("_") and not name.startswith("__") and "__" in name:
            name = name[name.index("__"):]  # undo private-name mangling (_int__pow_impl)
        return Builtin(f"{self.ty}.{name}", lambda *a: world.gcall(self.ty, name, [self] + list(a)))
    GVal.binop, GVal.cmp, GVal.unop, GVal.truth, GVal.getattr = binop, cmp, unop, truth, getattr_
