#!/bin/sh
# Offline setup: only checks that the interpreters and solvers the checks need are present.
set -e
cd "$(dirname "$0")"
python3-vt -c "import z3; print('z3-solver', z3.get_version_string())"
/venv/bin/python -c "import hugr, tket_exts; print('venv ok')"
command -v cvc5 >/dev/null && echo "cvc5 ok"
mkdir -p evidence replays
echo setup-done
